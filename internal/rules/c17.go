package rules

import (
	"fmt"
	"go/token"
	"go/types"
	"sort"
	"strings"

	"golang.org/x/tools/go/ssa"

	"verif/internal/core"
)

func init() {
	register(&Spec{
		ID: "C17",
		Decides: "every access to the mutable queue state (the slices of active, queued and waiting entries) executes with the queue mutex held, no method returns with it held, none re-takes it; the admission comparison and the insertion that follows it are in one critical section; " +
			"a queued waiter leaves Acquire only with the release function, after removing itself from both waiting lists, or after passing the slot on through release; the hand-off in release closes the waiter's channel and moves the same index between the lists under the lock; " +
			"AcquireMulti blocks on exactly one queue per round, try-acquires the rest, and releases the blocking slot on the retry path; every caller of Acquire/TryAcquire/AcquireMulti releases on every path (call, defer, or ownership transfer into a field that is released before being overwritten).",
		NotCovered: "absence of lost wake-ups and livelock over all interleavings (the rules are the structural halves), the index arithmetic of AcquireMulti's clean-up, fairness of the priority function.",
		Run:        runC17,
	})
}

const pqRel = "internal/pqueue"

// pqFuncs returns the generic (uninstantiated) functions of the queue package: their bodies are
// built by go/ssa and every instance is a copy of them.
func pqFuncs(p *core.Prog) []*ssa.Function {
	var out []*ssa.Function
	for _, fn := range pkgFuncs(p, pqRel) {
		if len(fn.TypeArgs()) == 0 {
			out = append(out, fn)
		}
	}
	return out
}

func pqMethod(p *core.Prog, name string) *ssa.Function {
	for _, fn := range pqFuncs(p) {
		if fn.Name() == name && fn.Parent() == nil {
			return fn
		}
	}
	if p.Resolve != nil {
		return p.Resolve(pqRel, "Queue", name)
	}
	return nil
}

type pqInfo struct {
	q       *types.Named
	mu      string
	mutable map[string]bool
	li      *core.LockInfo
	funcs   []*ssa.Function
}

func analyzePQ(p *core.Prog) *pqInfo {
	funcs := pqFuncs(p)
	acq := pqMethod(p, "Acquire")
	if acq == nil || acq.Signature.Recv() == nil {
		return nil
	}
	q := core.NamedOf(acq.Signature.Recv().Type())
	if q == nil {
		return nil
	}
	st, ok := q.Underlying().(*types.Struct)
	if !ok {
		return nil
	}
	info := &pqInfo{q: q, mutable: map[string]bool{}, funcs: funcs}
	for i := 0; i < st.NumFields(); i++ {
		if core.IsNamed(st.Field(i).Type(), "sync", "Mutex") {
			info.mu = st.Field(i).Name()
		}
	}
	sameQ := func(n *types.Named) bool { return n != nil && n.Origin() == q.Origin() }
	// mutable fields: stored to outside the constructor
	for _, fs := range fieldStores(funcs, func(n *types.Named, f string) bool { return sameQ(n) }) {
		if fs.Fn.Name() == "New" {
			continue
		}
		_, f := core.FieldAddrInfo(fs.Addr)
		info.mutable[f] = true
	}
	if info.mu == "" || len(info.mutable) == 0 {
		return nil
	}
	// the LockID must use the named type as it appears in the generic bodies
	var lockT *types.Named
	for _, fn := range funcs {
		core.Calls(fn, func(c ssa.CallInstruction) {
			if id, op := core.MutexOp(c); op != "" && sameQ(id.T) {
				lockT = id.T
			}
		})
	}
	if lockT == nil {
		return nil
	}
	info.li = core.AnalyzeLocks(core.LockSpec{
		ID:    core.LockID{T: lockT, Field: info.mu},
		Funcs: funcs,
		Protected: func(in ssa.Instruction) (string, bool) {
			fa, ok := in.(*ssa.FieldAddr)
			if !ok {
				return "", false
			}
			n, f := core.FieldAddrInfo(fa)
			if sameQ(n) && info.mutable[f] {
				return "access to Queue." + f, true
			}
			return "", false
		},
		Entry: func(fn *ssa.Function) bool { return fn.Object() != nil && fn.Object().Exported() },
	})
	return info
}

func (pi *pqInfo) isField(v ssa.Value, f string) bool {
	u, ok := v.(*ssa.UnOp)
	if !ok || u.Op != token.MUL {
		return false
	}
	fa, ok := u.X.(*ssa.FieldAddr)
	if !ok {
		return false
	}
	n, f2 := core.FieldAddrInfo(fa)
	return n != nil && n.Origin() == pi.q.Origin() && f2 == f
}

func (pi *pqInfo) storeField(in ssa.Instruction) string {
	st, ok := in.(*ssa.Store)
	if !ok {
		return ""
	}
	fa, ok := st.Addr.(*ssa.FieldAddr)
	if !ok {
		return ""
	}
	n, f := core.FieldAddrInfo(fa)
	if n != nil && n.Origin() == pi.q.Origin() && pi.mutable[f] {
		return f
	}
	return ""
}

func runC17(p *core.Prog, r *core.Report) {
	r.Rule("C17.R1", "all mutable queue state is accessed with the queue mutex held; no method leaks, splits or re-takes the lock", 20)
	r.Rule("C17.R2", "check-then-act: no unlock between the admission comparison and the insertion that follows it", 2)
	r.Rule("C17.R3", "a queued waiter leaves Acquire with the release function, after removing itself from both waiting lists, or after passing the slot on", 2)
	r.Rule("C17.R4", "hand-off: release closes the waiter's channel and moves the same index from the waiting lists to the active list under the lock", 2)
	r.Rule("C17.R5", "AcquireMulti: one blocking Acquire per round, TryAcquire for the rest, the blocking slot is released on the retry path", 3)
	r.Rule("C17.R6", "every caller releases its slot on every path (call, defer or ownership transfer); a slot stored in a field is released before the field is overwritten", 9)
	pi := analyzePQ(p)
	if pi == nil {
		r.MissingAnchor("C17.R1", pqRel+".Queue (mutex and mutable fields)")
		return
	}
	c17R1(p, r, pi)
	c17R2(p, r, pi)
	c17R3(p, r, pi)
	c17R4(p, r, pi)
	c17R5(p, r, pi)
	c17R6(p, r)
	c12R6(p, r, "C17.R6")
	c17R7(p, r)
	c17R8(p, r)
	c17R9(p, r)
	c17R11(p, r)
	c17R12(p, r)
	c17R13(p, r)
	c17R10(p, r)
}

// c17R9: a response holds its host's throttle slot until it is closed. A function of the registry
// scheme that sends another request to the registry while its own response is still open waits for a
// slot it holds itself: with one slot per host it never gets it, with few it deadlocks under load.
func c17R9(p *core.Prog, r *core.Report) {
	const rule = "C17.R9"
	r.Rule(rule, "no nested request under an open response: in scheme/reg, from a successful reghttp Do no call from which another Do is reachable can be reached without passing the Close of that response (a deferred Close keeps the slot until the function returns)", 5)
	isDo := func(f *types.Func) bool { return core.IsModMethod(f, "internal/reghttp", "Client", "Do") }
	// functions of the module from which a request is reachable
	sends := map[*ssa.Function]bool{}
	for _, fn := range p.ModFuncs {
		if len(fn.Blocks) == 0 {
			continue
		}
		if hits, _ := p.Reachable(fn, core.ReachQuery{IsSink: func(g *ssa.Function) bool {
			return g.Object() != nil && isDo(funcObj(g))
		}}); len(hits) > 0 {
			sends[fn] = true
		}
	}
	n := 0
	for _, fn := range pkgFuncs(p, "scheme/reg") {
		lab := labeler{}
		for _, c := range core.CallsTo(fn, isDo) {
			do, ok := c.(*ssa.Call)
			if !ok {
				continue
			}
			n++
			label := lab.next("response of Do")
			// the response value and its Close calls (not deferred)
			isClose := func(in ssa.Instruction) bool {
				cc, ok := in.(*ssa.Call)
				if !ok {
					return false
				}
				cal := core.Callee(cc)
				if cal == nil {
					return false
				}
				fromDo := func(v ssa.Value) bool {
					if v == nil || !core.IsModNamed(v.Type(), "internal/reghttp", "Resp") {
						return false
					}
					for _, oc := range originCalls(v) {
						if oc == do {
							return true
						}
					}
					return false
				}
				if cal.Name() == "Close" {
					return fromDo(core.CallArg(cc, 0))
				}
				// a helper that is handed the response and closes it
				if h := core.CalleeFn(cc); h != nil && p.InModule(h) && len(h.Blocks) > 0 && len(h.Blocks) < 12 {
					for i, a := range cc.Call.Args {
						if !fromDo(a) || i >= len(h.Params) {
							continue
						}
						closes := false
						core.Calls(h, func(hc ssa.CallInstruction) {
							if hcal := core.Callee(hc); hcal != nil && hcal.Name() == "Close" {
								if _, isDefer := hc.(*ssa.Defer); !isDefer || true {
									for _, o := range core.Origins(core.CallArg(hc, 0), core.SliceOpts{}) {
										if o.Kind == core.OParam && o.Param == h.Params[i] {
											closes = true
										}
									}
								}
							}
						})
						if closes {
							return true
						}
					}
				}
				return false
			}
			bad := ""
			// on the edge on which the response is nil nothing is held
			respNil := func(from, to *ssa.BasicBlock) bool {
				ifi, ok := core.LastInstr(from).(*ssa.If)
				if !ok {
					return false
				}
				cnd, pol := core.StripNot(ifi.Cond, true)
				bo, ok := cnd.(*ssa.BinOp)
				if !ok || (bo.Op != token.EQL && bo.Op != token.NEQ) {
					return false
				}
				var x ssa.Value
				switch {
				case core.IsNilConst(bo.Y):
					x = bo.X
				case core.IsNilConst(bo.X):
					x = bo.Y
				default:
					return false
				}
				if !core.IsModNamed(x.Type(), "internal/reghttp", "Resp") {
					return false
				}
				isResp := false
				for _, oc := range originCalls(x) {
					isResp = isResp || oc == do
				}
				if !isResp {
					return false
				}
				nilSucc := from.Succs[0]
				if (bo.Op == token.EQL) != pol {
					nilSucc = from.Succs[1]
				}
				return to == nilSucc
			}
			for _, e := range nilEdgesOf(fn, do) {
				for in := range (core.Reach{Stop: isClose, StopEdge: respNil}).FromEdge(e[0], e[1]) {
					cc, ok := in.(ssa.CallInstruction)
					if !ok || in == ssa.Instruction(do) {
						continue
					}
					if _, isDefer := in.(*ssa.Defer); isDefer {
						continue
					}
					g := core.CalleeFn(cc)
					if g == nil || !p.InModule(g) {
						continue
					}
					if sends[g] || isDo(core.Callee(cc)) {
						bad = g.Name() + " at " + p.Pos(in.Pos())
					}
				}
			}
			r.Check(bad == "", rule, p.FuncName(fn), label, p.Pos(do.Pos()), "while the response of this request is still open (its throttle slot is held) the function calls "+bad+", which sends another request to the registry: with one request slot per host the call waits for the slot its caller holds")
		}
	}
	if n == 0 {
		r.MissingAnchor(rule, "reghttp Do calls in scheme/reg")
	}
}

func funcObj(g *ssa.Function) *types.Func {
	f, _ := g.Object().(*types.Func)
	return f
}

// nilEdgesOf returns the CFG edges on which the error result of call w is known nil.
func nilEdgesOf(fn *ssa.Function, w *ssa.Call) [][2]*ssa.BasicBlock {
	var out [][2]*ssa.BasicBlock
	for _, b := range fn.Blocks {
		ifi, ok := core.LastInstr(b).(*ssa.If)
		if !ok {
			continue
		}
		c, pol := core.StripNot(ifi.Cond, true)
		x, neq, ok := errCmpNil(c)
		if !ok || !isErr(x.Type()) {
			continue // (a nil test of another result of the same call, `resp != nil`, says nothing about its error)
		}
		match := false
		for _, oc := range originCalls(x) {
			if oc == w {
				match = true
			}
		}
		if !match {
			continue
		}
		if neq == pol {
			out = append(out, [2]*ssa.BasicBlock{b, b.Succs[1]})
		} else {
			out = append(out, [2]*ssa.BasicBlock{b, b.Succs[0]})
		}
	}
	return out
}

func c17R1(p *core.Prog, r *core.Report, pi *pqInfo) {
	const rule = "C17.R1"
	bad := map[ssa.Instruction]bool{}
	for _, pr := range pi.li.Problems {
		if pr.At != nil {
			bad[pr.At] = true
		}
	}
	lab := map[string]labeler{}
	for _, op := range pi.li.Ops {
		if bad[op.At] || op.State != core.LHeld {
			continue
		}
		fname := p.FuncName(op.Fn)
		if lab[fname] == nil {
			lab[fname] = labeler{}
		}
		r.Held(rule, fname, lab[fname].next(op.What), p.Pos(op.At.Pos()), "with "+pi.li.Spec.ID.String()+" held")
	}
	lockProblemsToReport(p, r, rule, pi.li)
}

// admission comparisons: `len(a)+len(b) < q.max`-like comparisons whose operands load mutable
// fields and the limit.
func (pi *pqInfo) admissionChecks(fn *ssa.Function) []*ssa.BinOp {
	var out []*ssa.BinOp
	for _, b := range fn.Blocks {
		for _, in := range b.Instrs {
			bo, ok := in.(*ssa.BinOp)
			if !ok {
				continue
			}
			switch bo.Op {
			case token.LSS, token.LEQ, token.GTR, token.GEQ:
			default:
				continue
			}
			usesMutable, usesLimit := false, false
			var walk func(v ssa.Value, d int)
			walk = func(v ssa.Value, d int) {
				if v == nil || d > 6 {
					return
				}
				if u, ok := v.(*ssa.UnOp); ok && u.Op == token.MUL {
					if fa, ok := u.X.(*ssa.FieldAddr); ok {
						n, f := core.FieldAddrInfo(fa)
						if n != nil && n.Origin() == pi.q.Origin() {
							if pi.mutable[f] {
								usesMutable = true
							} else if isIntegerType(u.Type()) {
								usesLimit = true
							}
						}
					}
					return
				}
				if in2, ok := v.(ssa.Instruction); ok {
					for _, op := range in2.Operands(nil) {
						if op != nil && *op != nil {
							walk(*op, d+1)
						}
					}
				}
			}
			walk(bo, 0)
			if usesMutable && usesLimit {
				out = append(out, bo)
			}
		}
	}
	return out
}

func c17R2(p *core.Prog, r *core.Report, pi *pqInfo) {
	const rule = "C17.R2"
	for _, name := range []string{"Acquire", "TryAcquire"} {
		fn := pqMethod(p, name)
		if fn == nil {
			r.MissingAnchor(rule, pqRel+".(*Queue)."+name)
			continue
		}
		fname := p.FuncName(fn)
		// the admission test (and the insertion behind it) may live in an unexported helper that runs
		// under the caller's lock
		scope := core.Helpers(fn, 2)
		var checks []*ssa.BinOp
		for _, f := range sortedFuncs(scope) {
			checks = append(checks, pi.admissionChecks(f)...)
		}
		if len(checks) == 0 {
			r.Violated(rule, fname, "admission check", p.Pos(fn.Pos()), "no comparison of the number of active+queued entries with the limit: more callers than the limit can hold a slot")
			continue
		}
		for _, cmp := range checks {
			s := pi.li.StateAt(cmp)
			r.Check(s == core.LHeld, rule, fname, "admission check under the lock", p.Pos(cmp.Pos()), "the admission comparison runs with the mutex "+s.String())
		}
		// every insertion (append to a list of the queue) is in the same critical section as an admission
		// comparison: from no Lock is an insertion reachable without passing the comparison
		isCheck := map[ssa.Instruction]bool{}
		for _, cmp := range checks {
			isCheck[cmp] = true
		}
		ok := true
		detail := "every insertion is preceded, inside the same critical section, by the admission comparison"
		core.Calls(fn, func(c ssa.CallInstruction) {
			if _, isDefer := c.(*ssa.Defer); isDefer {
				return
			}
			id, op := core.MutexOp(c)
			if op != "lock" || !id.Same(pi.li.Spec.ID) {
				return
			}
			seen := core.DeepReach{Reach: core.Reach{Stop: func(in ssa.Instruction) bool { return isCheck[in] }}, Scope: scope}.FromInstr(c.(ssa.Instruction))
			for in := range seen {
				if pi.storeField(in) == "" {
					continue
				}
				for _, oc := range originCalls(in.(*ssa.Store).Val) {
					if b, isB := oc.Call.Value.(*ssa.Builtin); isB && b.Name() == "append" {
						ok = false
						detail = "the insertion at " + p.Pos(in.Pos()) + " is reachable from the Lock at " + p.Pos(c.Pos()) + " without passing the admission comparison (the comparison was made in an earlier critical section): two callers can both see a free slot"
					}
				}
			}
		})
		r.Check(ok, rule, fname, "admission check-then-act", p.Pos(fn.Pos()), detail)
	}
}

func c17R3(p *core.Prog, r *core.Report, pi *pqInfo) {
	const rule = "C17.R3"
	fn := pqMethod(p, "Acquire")
	if fn == nil {
		r.MissingAnchor(rule, pqRel+".(*Queue).Acquire")
		return
	}
	// Acquire may be a wrapper of the function that does the waiting (`return q.acquire(ctx, e, true)`):
	// the rule is about the function that enqueues
	enqueues := func(f *ssa.Function) bool {
		for _, b := range f.Blocks {
			n := 0
			for _, in := range b.Instrs {
				if pi.storeField(in) != "" {
					n++
				}
			}
			if n >= 2 {
				return true
			}
		}
		return false
	}
	if !enqueues(fn) {
		core.Calls(fn, func(c ssa.CallInstruction) {
			g := core.CalleeFn(c)
			if g != nil && !enqueues(g) {
				if obj := core.Callee(c); obj != nil {
					if og := p.SSA.FuncValue(obj.Origin()); og != nil {
						g = og
					}
				}
			}
			if g != nil && core.FuncPkg(g) != nil && core.FuncPkg(g).Path() == modPath(pqRel) && enqueues(g) {
				fn = g
			}
		})
	}
	fname := p.FuncName(fn)
	// enqueue: the block that appends to two mutable fields (entry list and channel list)
	var enq *ssa.BasicBlock
	var enqFields []string
	for _, b := range fn.Blocks {
		var fs []string
		for _, in := range b.Instrs {
			if f := pi.storeField(in); f != "" {
				fs = append(fs, f)
			}
		}
		if len(fs) >= 2 && enq == nil {
			// the enqueue appends; the self-removal (slices.Delete) is not it
			isAppend := true
			for _, in := range b.Instrs {
				if st, ok := in.(*ssa.Store); ok && pi.storeField(in) != "" {
					for _, oc := range originCalls(st.Val) {
						if bi, ok := oc.Call.Value.(*ssa.Builtin); !ok || bi.Name() != "append" {
							isAppend = false
						}
					}
				}
			}
			if isAppend {
				enq, enqFields = b, fs
			}
		}
	}
	if enq == nil {
		r.Undecided(rule, fname, "enqueue", p.Pos(fn.Pos()), "no block that adds the caller to two waiting lists found")
		return
	}
	isRelease := func(in ssa.Instruction) bool {
		c, ok := in.(ssa.CallInstruction)
		if !ok {
			return false
		}
		g := core.Callee(c)
		return g != nil && g.Pkg() != nil && g.Pkg().Path() == modPath(pqRel) && canonObj(g) == "release"
	}
	removedFrom := func(in ssa.Instruction) string {
		f := pi.storeField(in)
		if f == "" {
			return ""
		}
		st := in.(*ssa.Store)
		for _, oc := range originCalls(st.Val) {
			if cal := core.Callee(oc); cal != nil && cal.Pkg() != nil && cal.Pkg().Path() == "slices" && strings.HasPrefix(cal.Name(), "Delete") {
				return f
			}
		}
		return ""
	}
	// every return reachable from the enqueue
	last := enq.Instrs[len(enq.Instrs)-1]
	lab := labeler{}
	for _, ret := range core.Returns(fn) {
		if !(core.Reach{}).FromInstr(enq.Instrs[0])[ret] {
			continue
		}
		v := core.ReturnOperand(ret, 0)
		isRel := false
		for _, oc := range originCalls(v) {
			if g := core.Callee(oc); g != nil && g.Pkg() != nil && g.Pkg().Path() == modPath(pqRel) && canonObj(g) == "releaseFn" {
				isRel = true
			}
		}
		label := lab.next("return after enqueue")
		if isRel {
			r.Held(rule, fname, label, p.Pos(ret.Pos()), "admitted: returns the release function")
			continue
		}
		// not admitted: every path from the enqueue to this return passes release(&e) or removes itself from every waiting list
		okPath := true
		detail := "gives up only after removing itself from " + strings.Join(enqFields, " and ") + " or passing the slot on with release"
		// paths that avoid release and avoid deleting from list k
		for _, f := range enqFields {
			f := f
			seen := core.DeepReach{Reach: core.Reach{Stop: func(in ssa.Instruction) bool { return isRelease(in) || removedFrom(in) == f }}, Scope: core.Helpers(fn, 2)}.FromInstr(last)
			if seen[ret] {
				okPath = false
				detail = "a cancelled waiter can return without removing itself from Queue." + f + " and without passing on a slot it was handed concurrently: the slot (or the wake-up meant for another waiter) is lost and later callers block forever"
			}
		}
		r.Check(okPath, rule, fname, label, p.Pos(ret.Pos()), detail)
	}
}

func c17R4(p *core.Prog, r *core.Report, pi *pqInfo) {
	const rule = "C17.R4"
	fn := pqMethod(p, "release")
	if fn == nil {
		r.MissingAnchor(rule, pqRel+".(*Queue).release")
		return
	}
	fname := p.FuncName(fn)
	var closeCall *ssa.Call
	core.Calls(fn, func(c ssa.CallInstruction) {
		if b, ok := c.Common().Value.(*ssa.Builtin); ok && b.Name() == "close" {
			closeCall, _ = c.(*ssa.Call)
		}
	})
	if closeCall == nil {
		r.Violated(rule, fname, "wake-up", p.Pos(fn.Pos()), "release never closes a waiter's channel: queued callers are never admitted")
		return
	}
	r.Check(pi.li.StateAt(closeCall) == core.LHeld, rule, fname, "wake-up under the lock", p.Pos(closeCall.Pos()), "the waiter's channel is closed inside the critical section that moves it to the active list")
	// the index of the channel closed
	var idx ssa.Value
	for _, o := range core.Origins(closeCall.Call.Args[0], core.SliceOpts{}) {
		_ = o
	}
	var findIdx func(v ssa.Value, d int)
	findIdx = func(v ssa.Value, d int) {
		if v == nil || d > 6 || idx != nil {
			return
		}
		switch x := v.(type) {
		case *ssa.UnOp:
			findIdx(x.X, d+1)
		case *ssa.IndexAddr:
			idx = x.Index
		case *ssa.Index:
			idx = x.Index
		}
	}
	findIdx(closeCall.Call.Args[0], 0)
	if idx == nil {
		r.Undecided(rule, fname, "hand-off index", p.Pos(closeCall.Pos()), "the closed channel is not an indexed element of a waiting list")
		return
	}
	// after the close, in the same block: an append to a mutable field of an element indexed by idx, and deletes at idx
	moved, deleted := false, 0
	for in := range (core.Reach{}).FromInstr(closeCall) {
		if f := pi.storeField(in); f != "" {
			st := in.(*ssa.Store)
			for _, oc := range originCalls(st.Val) {
				if b, ok := oc.Call.Value.(*ssa.Builtin); ok && b.Name() == "append" {
					for _, e := range variadicElems(oc.Call.Args[1]) {
						if usesIndex(e, idx) {
							moved = true
						}
					}
				}
				if cal := core.Callee(oc); cal != nil && cal.Pkg() != nil && cal.Pkg().Path() == "slices" && strings.HasPrefix(cal.Name(), "Delete") {
					if len(oc.Call.Args) >= 2 && oc.Call.Args[1] == idx {
						deleted++
					}
				}
			}
		}
	}
	r.Check(moved && deleted >= 2, rule, fname, "hand-off moves one index", p.Pos(closeCall.Pos()),
		fmt.Sprintf("after the wake-up the same index is appended to the active list (%v) and deleted from both waiting lists (%d of 2): a mismatch wakes one waiter and admits another", moved, deleted))
}

func usesIndex(v ssa.Value, idx ssa.Value) bool {
	for d := 0; d < 6 && v != nil; d++ {
		switch x := v.(type) {
		case *ssa.UnOp:
			v = x.X
		case *ssa.IndexAddr:
			return x.Index == idx
		case *ssa.Index:
			return x.Index == idx
		default:
			return false
		}
	}
	return false
}

func c17R5(p *core.Prog, r *core.Report, pi *pqInfo) {
	const rule = "C17.R5"
	fn := pqMethod(p, "AcquireMulti")
	if fn == nil {
		r.MissingAnchor(rule, pqRel+".AcquireMulti")
		return
	}
	fname := p.FuncName(fn)
	var blocking, trying []*ssa.Call
	// one round (blocking acquire, try-acquires, back-off) may be an unexported helper called from the retry loop
	unit := fn
	for _, f := range sortedFuncs(core.HelpersExcept(fn, 2, func(h *ssa.Function) bool {
		return h.Name() == "Acquire" || h.Name() == "TryAcquire" || canon(h) == "release"
	})) {
		f := f
		core.Calls(f, func(c ssa.CallInstruction) {
			g := core.Callee(c)
			call, ok := c.(*ssa.Call)
			if g == nil || !ok || g.Pkg() == nil || g.Pkg().Path() != modPath(pqRel) {
				return
			}
			switch g.Name() {
			case "Acquire":
				blocking = append(blocking, call)
				unit = f
			case "TryAcquire":
				trying = append(trying, call)
			}
		})
	}
	r.Check(len(blocking) == 1, rule, fname, "one blocking acquisition per round", p.Pos(fn.Pos()),
		fmt.Sprintf("%d call sites of the blocking Acquire (blocking on a second queue while holding a slot of the first is the hold-and-wait that deadlocks overlapping requests)", len(blocking)))
	r.Check(len(trying) >= 1, rule, fname, "others are try-acquired", p.Pos(fn.Pos()), fmt.Sprintf("%d TryAcquire call sites", len(trying)))
	if len(blocking) != 1 {
		return
	}
	b := blocking[0]
	// the slot of the blocking acquire is stored in the done list at index L; on the failure path a call
	// through doneList[L] (same index value) or through the acquire's own result must exist, or a loop
	// over the whole list.
	var L ssa.Value
	var list ssa.Value
	for _, ref := range *b.Referrers() {
		ex, ok := ref.(*ssa.Extract)
		if !ok || ex.Index != 0 {
			continue
		}
		for _, r2 := range *ex.Referrers() {
			if st, ok := r2.(*ssa.Store); ok {
				if ia, ok := st.Addr.(*ssa.IndexAddr); ok {
					L, list = ia.Index, ia.X
				}
			}
		}
	}
	if L == nil {
		r.Undecided(rule, fname, "blocking slot released on retry", p.Pos(b.Pos()), "the release function of the blocking Acquire is not stored in an indexed list")
		return
	}
	released := false
	// calls on the failure path: those inside the retry loop (the natural loop containing the blocking call)
	var loop *core.Loop
	for _, l := range core.Loops(unit) {
		if l.Blocks[b.Block()] && (loop == nil || len(l.Blocks) > len(loop.Blocks)) {
			loop = l
		}
	}
	if loop == nil && unit == fn {
		r.Undecided(rule, fname, "blocking slot released on retry", p.Pos(b.Pos()), "the blocking Acquire is not inside a retry loop")
		return
	}
	// the region of one round: the retry loop, or the whole helper when a round is a function of its own
	region := func(f func(ssa.Instruction)) {
		if loop != nil {
			loop.Instrs(f)
			return
		}
		for _, blk := range unit.Blocks {
			for _, in := range blk.Instrs {
				f(in)
			}
		}
	}
	region(func(in ssa.Instruction) {
		c, ok := in.(*ssa.Call)
		if !ok || c.Call.IsInvoke() || c.Call.StaticCallee() != nil {
			return
		}
		// callee value: load of list[L]
		if u, ok := c.Call.Value.(*ssa.UnOp); ok && u.Op == token.MUL {
			if ia, ok := u.X.(*ssa.IndexAddr); ok && sameValue(ia.X, list) && sameValue(ia.Index, L) {
				released = true
			}
		}
		for _, oc := range originCalls(c.Call.Value) {
			if oc == b {
				released = true
			}
		}
	})
	// alternative: a range loop over the whole list inside the retry loop
	for _, l := range core.Loops(unit) {
		if l != loop && (loop == nil || loop.Blocks[l.Header]) && strings.HasPrefix(l.Header.Comment, "rangeindex") {
			if rv, ok := l.IsRange(); ok && sameValue(rv, list) {
				released = true
			}
		}
	}
	r.Check(released, rule, fname, "blocking slot released on retry", p.Pos(b.Pos()),
		"when a TryAcquire fails the round is abandoned; the slot obtained by the blocking Acquire must be released on that path (through the list entry at the blocking index, or a sweep of the whole list), otherwise the caller waits on the next queue while holding it and the slot is later overwritten and lost")
}

// ---------------------------------------------------------------------------------------------
// R6: callers release (P8)

// isLuaRaise: methods of the Lua state that do not return (they panic with a Lua error).
func isLuaRaise(f *types.Func) bool {
	if f == nil || f.Pkg() == nil || !strings.HasSuffix(f.Pkg().Path(), "gopher-lua") {
		return false
	}
	switch f.Name() {
	case "RaiseError", "Error", "ArgError", "TypeError":
		return true
	}
	return strings.HasPrefix(f.Name(), "Check")
}

// luaRaisers: module functions from which a Lua raise is reachable through static calls.
func luaRaisers(p *core.Prog) map[*ssa.Function]bool {
	direct := map[*ssa.Function]bool{}
	for _, fn := range p.ModFuncs {
		core.Calls(fn, func(c ssa.CallInstruction) {
			if cal := core.Callee(c); cal != nil && isLuaRaise(cal) {
				direct[fn] = true
			}
		})
	}
	// propagate over static calls only (a function value stored somewhere is not a call)
	changed := true
	for changed {
		changed = false
		for _, fn := range p.ModFuncs {
			if direct[fn] {
				continue
			}
			core.Calls(fn, func(c ssa.CallInstruction) {
				if _, isDefer := c.(*ssa.Defer); isDefer {
					return
				}
				if _, isGo := c.(*ssa.Go); isGo {
					return
				}
				if g := core.CalleeFn(c); g != nil && direct[g] && !direct[fn] {
					direct[fn] = true
					changed = true
				}
			})
		}
	}
	return direct
}

func c17R6(p *core.Prog, r *core.Report) {
	const rule = "C17.R6"
	raisers := luaRaisers(p)
	for _, fn := range p.ModFuncs {
		if pk := core.FuncPkg(fn); pk == nil || pk.Path() == modPath(pqRel) {
			continue
		}
		if fn.Synthetic != "" {
			continue
		}
		lab := labeler{}
		core.Calls(fn, func(c ssa.CallInstruction) {
			cal := core.Callee(c)
			if cal == nil || cal.Pkg() == nil || cal.Pkg().Path() != modPath(pqRel) {
				return
			}
			relIdx, errIdx := 0, 1
			switch cal.Name() {
			case "Acquire", "TryAcquire":
			case "AcquireMulti":
				relIdx, errIdx = 1, 2
			default:
				return
			}
			fname := p.FuncName(fn)
			label := lab.next(cal.Name())
			call, ok := c.(*ssa.Call)
			if !ok {
				r.Undecided(rule, fname, label, p.Pos(c.Pos()), "acquisition inside go/defer")
				return
			}
			_ = errIdx
			fromThis := func(v ssa.Value) bool {
				for _, o := range core.Origins(v, core.SliceOpts{}) {
					if o.Kind == core.OCall && o.Call == call && (o.Res == relIdx || o.Res == -1) {
						return true
					}
				}
				return false
			}
			released := func(in ssa.Instruction) bool {
				switch x := in.(type) {
				case *ssa.Defer:
					if !x.Call.IsInvoke() && fromThis(x.Call.Value) {
						return true
					}
					// defer func(){ … done() … }() closing over the release value
					if lit := closureOf(x.Call.Value); lit != nil {
						if mc, ok := x.Call.Value.(*ssa.MakeClosure); ok {
							for _, bnd := range mc.Bindings {
								if fromThis(bnd) {
									return true
								}
								if al, ok := bnd.(*ssa.Alloc); ok {
									for _, st := range core.StoresToCell(al) {
										if fromThis(st.Val) {
											return true
										}
									}
								}
							}
						}
					}
				case *ssa.Call:
					if !x.Call.IsInvoke() && x.Call.StaticCallee() == nil && fromThis(x.Call.Value) {
						return true
					}
				case *ssa.Store:
					if _, isField := x.Addr.(*ssa.FieldAddr); isField && fromThis(x.Val) {
						return true // ownership moves into a struct (released by its Close)
					}
				case *ssa.Return:
					for _, res := range x.Results {
						if fromThis(res) {
							return true // ownership returned to the caller
						}
					}
				}
				return false
			}
			// edges on which nothing is held: the acquisition failed, or the release function is nil
			stopEdge := func(from, to *ssa.BasicBlock) bool {
				ifi, ok := core.LastInstr(from).(*ssa.If)
				if !ok {
					return false
				}
				cnd, pol := core.StripNot(ifi.Cond, true)
				x, neq, isNil := errCmpNil(cnd)
				if !isNil {
					return false
				}
				nonNilEdge := from.Succs[1]
				if neq == pol {
					nonNilEdge = from.Succs[0]
				}
				// error of this acquisition non-nil
				for _, o := range core.Origins(x, core.SliceOpts{}) {
					if o.Kind == core.OCall && o.Call == call && o.Res == errIdx && to == nonNilEdge {
						return true
					}
					// release function nil
					if o.Kind == core.OCall && o.Call == call && o.Res == relIdx && to != nonNilEdge {
						return true
					}
				}
				return false
			}
			seen := core.Reach{Stop: released, StopEdge: stopEdge}.FromInstr(call)
			bad := ""
			raise := ""
			for in := range seen {
				if ret, isRet := in.(*ssa.Return); isRet && !released(in) {
					bad = p.Pos(ret.Pos())
				}
				// a call that does not return normally (Lua errors are panics, panic itself) while the
				// slot is held and no release is deferred yet
				if cc, isCall := in.(ssa.CallInstruction); isCall && !released(in) {
					if b, isB := cc.Common().Value.(*ssa.Builtin); isB && b.Name() == "panic" {
						raise = p.Pos(in.Pos())
					} else if g := core.CalleeFn(cc); g != nil && raisers[g] {
						raise = p.Pos(in.Pos())
					} else if cal := core.Callee(cc); cal != nil && isLuaRaise(cal) {
						raise = p.Pos(in.Pos())
					}
				}
			}
			if bad == "" && raise != "" {
				r.Violated(rule, fname, label, p.Pos(c.Pos()), "a call at "+raise+" raises a Lua error (a panic) or panics while the slot is held and before any release is deferred: the slot is lost and later callers of this throttle block forever")
			} else if bad != "" {
				r.Violated(rule, fname, label, p.Pos(c.Pos()), "a return at "+bad+" is reachable while the slot is held (no call, defer or hand-over of the release function on that path): the slot is lost and later callers of this throttle block forever")
			} else {
				r.Held(rule, fname, label, p.Pos(c.Pos()), "released, deferred or handed over on every path")
			}
		})
	}
}

// ---------------------------------------------------------------------------------------------
// R7: a throttle keeps its identity while slots may be held

func isQueueType(t types.Type) bool {
	n := core.NamedOf(t)
	return n != nil && n.Obj().Pkg() != nil && n.Obj().Pkg().Path() == modPath(pqRel) && n.Obj().Name() == "Queue"
}

func c17R7(p *core.Prog, r *core.Report) {
	const rule = "C17.R7"
	r.Rule(rule, "a throttle is created once per key and never dropped or replaced: no delete on a map of queues, a map entry is stored only on the miss edge of a lookup in the same map, and a queue-typed struct field has a single store site (its creation or an option)", 3)
	type site struct {
		fn  *ssa.Function
		pos string
		in  ssa.Instruction
	}
	fieldStoresBy := map[string][]site{}
	for _, fn := range p.ModFuncs {
		if pk := core.FuncPkg(fn); pk == nil || pk.Path() == modPath(pqRel) || fn.Synthetic != "" {
			continue
		}
		fname := p.FuncName(fn)
		lab := labeler{}
		for _, b := range fn.Blocks {
			for _, in := range b.Instrs {
				switch x := in.(type) {
				case *ssa.Call:
					// a sync.Map of throttles: Store after a failed Load is check-then-act without a lock, two
					// callers that both miss each keep their own queue (LoadOrStore is the atomic form); Delete
					// drops a queue that may be in use
					if cal := core.Callee(x); cal != nil && (core.IsMethod(cal, "sync", "Map", "Store") || core.IsMethod(cal, "sync", "Map", "Delete") || core.IsMethod(cal, "sync", "Map", "Swap") || core.IsMethod(cal, "sync", "Map", "LoadAndDelete") || core.IsMethod(cal, "sync", "Map", "Clear")) {
						isQ := cal.Name() == "Delete" || cal.Name() == "LoadAndDelete" || cal.Name() == "Clear"
						for _, a := range x.Call.Args[1:] {
							if isQueueType(underIface(a).Type()) {
								isQ = true
							}
						}
						// Delete/Clear only count on a map that also holds queues somewhere
						if isQ && syncMapOfQueues(p, fn, x.Call.Args[0]) {
							r.Violated(rule, fname, lab.next("sync.Map."+cal.Name()+" of a throttle"), p.Pos(x.Pos()), "the throttle table is changed with "+cal.Name()+": two callers that miss the same key at the same time each create and use their own queue (or a queue in use is dropped), so the limit holds per orphan queue and not per key; LoadOrStore is the atomic form")
						}
					}
					if bi, ok := x.Call.Value.(*ssa.Builtin); ok && (bi.Name() == "delete" || bi.Name() == "clear") && len(x.Call.Args) > 0 {
						if mt, ok := x.Call.Args[0].Type().Underlying().(*types.Map); ok && isQueueType(mt.Elem()) {
							r.Violated(rule, fname, lab.next(bi.Name()+" on a map of throttles"), p.Pos(x.Pos()), "the queue is dropped while callers may hold or wait for its slots; the next lookup creates a fresh queue with every slot free, so more than the limit run at once")
						}
					}
				case *ssa.MapUpdate:
					mt, ok := x.Map.Type().Underlying().(*types.Map)
					if !ok || !isQueueType(mt.Elem()) {
						continue
					}
					label := lab.next("store into a map of throttles")
					// fresh map (constructor) or behind the miss edge of a lookup in the same map
					mp := accessPath(x.Map)
					okGuard := anyGuard(b, func(c ssa.Value, pol bool) bool {
						if pol {
							return false
						}
						ex, isEx := c.(*ssa.Extract)
						if !isEx || ex.Index != 1 {
							return false
						}
						lk, isLk := ex.Tuple.(*ssa.Lookup)
						return isLk && lk.CommaOk && accessPath(lk.X) == mp && mp != ""
					})
					if !okGuard {
						// nil-test form: if m[k] == nil { m[k] = New() }
						okGuard = anyGuard(b, func(c ssa.Value, pol bool) bool {
							x2, neq, isNil := errCmpNil(c)
							if !isNil || neq == pol {
								return false
							}
							lk, isLk := x2.(*ssa.Lookup)
							return isLk && accessPath(lk.X) == mp && mp != ""
						})
					}
					r.Check(okGuard, rule, fname, label, p.Pos(x.Pos()), "an entry is only created on the miss edge of a lookup in the same map (an existing queue is never replaced)")
				case *ssa.Store:
					fa, ok := x.Addr.(*ssa.FieldAddr)
					if !ok {
						continue
					}
					pt, ok := fa.Type().Underlying().(*types.Pointer)
					if !ok || !isQueueType(pt.Elem()) {
						continue
					}
					if core.IsNilConst(x.Val) {
						r.Violated(rule, fname, lab.next("throttle field cleared"), p.Pos(x.Pos()), "the queue is dropped while callers may hold or wait for its slots")
						continue
					}
					n, f := core.FieldAddrInfo(fa)
					key := "?." + f
					if n != nil {
						key = strings.TrimPrefix(n.Obj().Pkg().Path(), modPath("")+"/") + "." + n.Obj().Name() + "." + f
					}
					fieldStoresBy[key] = append(fieldStoresBy[key], site{fn, p.Pos(x.Pos()), x})
				}
			}
		}
	}
	var keys []string
	for k := range fieldStoresBy {
		keys = append(keys, k)
	}
	sort.Strings(keys)
	for _, k := range keys {
		ss := fieldStoresBy[k]
		if len(ss) == 1 {
			r.Held(rule, p.FuncName(ss[0].fn), "store to throttle field "+k, ss[0].pos, "the only store to this field")
			continue
		}
		// several sites: each must store into a struct allocated in the same function
		for i, st := range ss {
			fresh := false
			if s2, ok := st.in.(*ssa.Store); ok {
				if fa, ok := s2.Addr.(*ssa.FieldAddr); ok {
					if al, ok := fa.X.(*ssa.Alloc); ok && al.Heap || isNewStruct(fa.X) {
						fresh = true
					}
				}
			}
			r.Check(fresh, rule, p.FuncName(st.fn), fmt.Sprintf("store to throttle field %s#%d", k, i+1), st.pos, "the field is written at several places; each one must initialise a struct created in the same function (a queue that callers may hold slots of is never replaced)")
		}
	}
}

func isNewStruct(v ssa.Value) bool {
	switch x := v.(type) {
	case *ssa.Alloc:
		return true
	case *ssa.Phi:
		for _, e := range x.Edges {
			if !isNewStruct(e) {
				return false
			}
		}
		return true
	}
	return false
}

// ---------------------------------------------------------------------------------------------
// R8: a waiter finds itself by something only it has

func c17R8(p *core.Prog, r *core.Report) {
	const rule = "C17.R8"
	r.Rule(rule, "waiter identity: where Acquire looks up its own position in a waiting list (to leave the queue on cancellation) the search key is the address of a variable whose type cannot have size zero — the wake-up channel created by this call — and not the address of the entry: the entry type is a type parameter, the CLIs instantiate it with struct{}, and all zero-size variables may share one address, so a cancelled waiter would remove another waiter's channel", 1)
	fn := pqMethod(p, "Acquire")
	if fn == nil {
		r.MissingAnchor(rule, pqRel+".(*Queue).Acquire")
		return
	}
	fname := p.FuncName(fn)
	scope := core.Helpers(fn, 2)
	lab := labeler{}
	n := 0
	mayBeZeroSize := func(t types.Type) bool {
		switch u := t.(type) {
		case *types.TypeParam:
			return true
		default:
			_ = u
		}
		if st, ok := t.Underlying().(*types.Struct); ok && st.NumFields() == 0 {
			return true
		}
		if at, ok := t.Underlying().(*types.Array); ok && at.Len() == 0 {
			return true
		}
		return false
	}
	for _, f := range sortedFuncs(scope) {
		if canon(f) == "release" {
			continue // release removes one entry equal to the one given: identical entries are interchangeable there
		}
		core.Calls(f, func(c ssa.CallInstruction) {
			cal := core.Callee(c)
			if cal == nil || cal.Pkg() == nil || cal.Pkg().Path() != "slices" || cal.Name() != "Index" {
				return
			}
			args := c.Common().Args
			if len(args) != 2 {
				return
			}
			// the searched list is a waiting list of the queue (a mutable field other than the active list is enough: both waiting lists are parallel)
			if u, ok := args[0].(*ssa.UnOp); !ok || u.Op != token.MUL {
				return
			} else if _, isField := u.X.(*ssa.FieldAddr); !isField {
				return
			}
			n++
			label := lab.next("own position searched by")
			key := args[1]
			pt, isPtr := key.Type().Underlying().(*types.Pointer)
			if !isPtr {
				r.Held(rule, p.FuncName(f), label, p.Pos(c.Pos()), "the key is a value, not an address")
				return
			}
			if mayBeZeroSize(pt.Elem()) {
				r.Violated(rule, p.FuncName(f), label, p.Pos(c.Pos()), "the key is the address of a "+pt.Elem().String()+" value; for a zero-size entry type every waiter has the same address and the first queued waiter is removed instead of the caller")
			} else {
				r.Held(rule, p.FuncName(f), label, p.Pos(c.Pos()), "the key is the address of a "+pt.Elem().String()+", unique to this call")
			}
		})
	}
	if n == 0 {
		r.Held(rule, fname, "no search of a waiting list by address", p.Pos(fn.Pos()), "the waiter does not look itself up by address")
	}
}

// syncMapOfQueues: somewhere in the package of fn a queue is stored into (or loaded-or-stored into)
// the sync.Map that recv addresses (same struct field).
func syncMapOfQueues(p *core.Prog, fn *ssa.Function, recv ssa.Value) bool {
	fa, ok := recv.(*ssa.FieldAddr)
	if !ok {
		return false
	}
	n, f := core.FieldAddrInfo(fa)
	for _, g := range p.ModFuncs {
		if core.FuncPkg(g) != core.FuncPkg(fn) {
			continue
		}
		for _, b := range g.Blocks {
			for _, in := range b.Instrs {
				c, ok := in.(*ssa.Call)
				if !ok {
					continue
				}
				cal := core.Callee(c)
				if cal == nil || !(core.IsMethod(cal, "sync", "Map", "Store") || core.IsMethod(cal, "sync", "Map", "LoadOrStore")) {
					continue
				}
				fa2, ok := c.Call.Args[0].(*ssa.FieldAddr)
				if !ok {
					continue
				}
				n2, f2 := core.FieldAddrInfo(fa2)
				if n2 != n || f2 != f {
					continue
				}
				for _, a := range c.Call.Args[1:] {
					if isQueueType(underIface(a).Type()) {
						return true
					}
				}
			}
		}
	}
	return false
}

// c17R10: the slots a transaction holds are known through its context. AcquireMulti records the
// queues it has taken in the context it returns, and a nested Acquire on one of them returns at once
// when it finds that record. A request sent under a context that was not derived from the caller's
// (context.Background for a clean-up after cancellation) acquires for real — on the queue whose slot
// its own caller holds.
func c17R10(p *core.Prog, r *core.Report) {
	const rule = "C17.R10"
	r.Rule(rule, "requests stay inside their transaction: in the schemes and the client, the context handed to a reghttp Do or to a queue Acquire is derived from a context the function was given (through context.With… or the warning wrapper), never from context.Background / TODO / WithoutCancel (the record of slots already held travels in the context)", 5)
	isRoot := func(f *types.Func) bool {
		return f != nil && f.Pkg() != nil && f.Pkg().Path() == "context" && (f.Name() == "Background" || f.Name() == "TODO" || f.Name() == "WithoutCancel")
	}
	through := func(c *ssa.Call) []int {
		f := core.Callee(c)
		if f == nil || isRoot(f) {
			return nil
		}
		// wrappers: the first context-typed argument carries the values on
		for i, a := range c.Call.Args {
			if core.IsNamed(a.Type(), "context", "Context") {
				return []int{i}
			}
		}
		return nil
	}
	n := 0
	lab := map[*ssa.Function]labeler{}
	for _, rel := range []string{"scheme/reg", "scheme/ocidir", "."} {
		for _, fn := range pkgFuncs(p, rel) {
			core.Calls(fn, func(c ssa.CallInstruction) {
				cal := core.Callee(c)
				if cal == nil || cal.Pkg() == nil {
					return
				}
				isDo := cal.Pkg().Path() == modPath("internal/reghttp") && cal.Name() == "Do"
				isAcq := cal.Pkg().Path() == modPath(pqRel) && (cal.Name() == "Acquire" || cal.Name() == "AcquireMulti")
				if !isDo && !isAcq {
					return
				}
				var ctxArg ssa.Value
				for _, a := range c.Common().Args {
					if core.IsNamed(a.Type(), "context", "Context") {
						ctxArg = a
						break
					}
				}
				if ctxArg == nil {
					return
				}
				n++
				bad := ""
				for _, o := range core.Origins(ctxArg, core.SliceOpts{Through: through}) {
					if o.Kind == core.OCall && isRoot(o.Callee()) {
						bad = "context." + o.Callee().Name() + "()"
					}
				}
				if lab[fn] == nil {
					lab[fn] = labeler{}
				}
				r.Check(bad == "", rule, p.FuncName(fn), lab[fn].next("context of "+cal.Name()), p.Pos(c.Pos()),
					"the context can be "+bad+": it does not carry the record of the slots the caller's transaction holds, so the request waits for a slot of a queue its own caller occupies")
			})
		}
	}
	if n == 0 {
		r.MissingAnchor(rule, "reghttp Do / queue Acquire calls in the schemes")
	}
}

// ---------------------------------------------------------------------------------------------
// R11 every response is closed or handed on

// c17R11: a response holds the slot of its host's request queue until Close. A function that sends a
// request and returns without closing the response, deferring the close, or handing the response to
// whoever will close it (a blob reader, a returned value, a field) loses the slot for the lifetime
// of the client.
func c17R11(p *core.Prog, r *core.Report) {
	const rule = "C17.R11"
	r.Rule(rule, "every response gives its slot back: in scheme/reg, from the success edge of a reghttp Do no return is reachable before the response is closed (a call or a deferred call of Close, directly, in a literal or in a helper that is handed the response), returned, stored, or handed to another function (a reader that closes it); the response-is-nil edge holds nothing (found D24 on the unchanged tree: BlobDelete never closed its response)", 5)
	isDo := func(f *types.Func) bool { return core.IsModMethod(f, "internal/reghttp", "Client", "Do") }
	n := 0
	for _, fn := range pkgFuncs(p, "scheme/reg") {
		lab := labeler{}
		for _, c := range core.CallsTo(fn, isDo) {
			do, ok := c.(*ssa.Call)
			if !ok {
				continue
			}
			n++
			label := lab.next("response of Do closed")
			fromDo := func(v ssa.Value) bool {
				if v == nil || !core.IsModNamed(v.Type(), "internal/reghttp", "Resp") {
					return false
				}
				for _, oc := range originCalls(v) {
					if oc == do {
						return true
					}
				}
				return false
			}
			// a literal that closes the captured response
			litCloses := func(mc *ssa.MakeClosure) bool {
				lit, _ := mc.Fn.(*ssa.Function)
				if lit == nil {
					return false
				}
				found := false
				core.Calls(lit, func(hc ssa.CallInstruction) {
					if hcal := core.Callee(hc); hcal != nil && hcal.Name() == "Close" {
						a := core.CallArg(hc, 0)
						if a != nil && core.IsModNamed(a.Type(), "internal/reghttp", "Resp") {
							for _, o := range core.Origins(a, core.SliceOpts{}) {
								if o.Kind == core.OFree || (o.Kind == core.OCall && o.Call == do) {
									found = true
								}
							}
						}
					}
				})
				if !found {
					return false
				}
				// the literal must capture this response (its cell or value)
				for _, b := range mc.Bindings {
					if fromDo(b) {
						return true
					}
					if al, ok := b.(*ssa.Alloc); ok {
						for _, st := range core.StoresToCell(al) {
							if fromDo(st.Val) {
								return true
							}
						}
					}
				}
				return false
			}
			releases := func(in ssa.Instruction) bool {
				switch x := in.(type) {
				case *ssa.Return:
					for _, v := range x.Results {
						if fromDo(v) {
							return true
						}
					}
					return false
				case *ssa.Store:
					if fromDo(x.Val) {
						if _, isAlloc := x.Addr.(*ssa.Alloc); !isAlloc {
							return true // stored into a field / element: ownership moves
						}
					}
					return false
				}
				cc, ok := in.(ssa.CallInstruction)
				if !ok {
					return false
				}
				if mc, ok := cc.Common().Value.(*ssa.MakeClosure); ok && litCloses(mc) {
					return true
				}
				cal := core.Callee(cc)
				if cal != nil && cal.Name() == "Close" && fromDo(core.CallArg(cc, 0)) {
					return true
				}
				// handed to another function (not one of the response's own methods)
				args := cc.Common().Args
				start := 0
				if cal != nil {
					if sig, ok := cal.Type().(*types.Signature); ok && sig.Recv() != nil && !cc.Common().IsInvoke() {
						if len(args) > 0 && fromDo(args[0]) {
							start = 1 // a method of the response itself does not take it over
						}
					}
				}
				for _, a := range args[start:] {
					for _, e := range variadicElems(a) {
						if fromDo(underIface(e)) {
							return true
						}
					}
				}
				return false
			}
			respNil := func(from, to *ssa.BasicBlock) bool {
				ifi, ok := core.LastInstr(from).(*ssa.If)
				if !ok {
					return false
				}
				cnd, pol := core.StripNot(ifi.Cond, true)
				bo, ok := cnd.(*ssa.BinOp)
				if !ok || (bo.Op != token.EQL && bo.Op != token.NEQ) {
					return false
				}
				var x ssa.Value
				switch {
				case core.IsNilConst(bo.Y):
					x = bo.X
				case core.IsNilConst(bo.X):
					x = bo.Y
				default:
					return false
				}
				if !fromDo(x) {
					return false
				}
				nilSucc := from.Succs[0]
				if (bo.Op == token.EQL) != pol {
					nilSucc = from.Succs[1]
				}
				return to == nilSucc
			}
			// path sensitivity for the usual shape `resp, err := Do(); if err != nil && fallback { resp, err = Do() }; if err != nil { return }`:
			// on a path that starts at the success edge of this request, a later test of a phi of errors
			// whose incoming values on the blocks reachable from that edge are this request's (nil) error
			// cannot take its failure edge
			isDoErr := func(v ssa.Value) bool {
				if core.IsNilConst(v) {
					return true
				}
				ex, ok := v.(*ssa.Extract)
				return ok && ex.Tuple == ssa.Value(do) && isErr(ex.Type())
			}
			errPhiCut := func(start [2]*ssa.BasicBlock) func(from, to *ssa.BasicBlock) bool {
				r0 := map[*ssa.BasicBlock]bool{start[0]: true}
				var walk func(b *ssa.BasicBlock)
				walk = func(b *ssa.BasicBlock) {
					if r0[b] && b != start[0] {
						return
					}
					if b != start[0] {
						r0[b] = true
					}
					for _, s := range b.Succs {
						if !r0[s] {
							walk(s)
						}
					}
				}
				walk(start[1])
				return func(from, to *ssa.BasicBlock) bool {
					if respNil(from, to) {
						return true
					}
					ifi, ok := core.LastInstr(from).(*ssa.If)
					if !ok {
						return false
					}
					cnd, pol := core.StripNot(ifi.Cond, true)
					x, neq, ok := errCmpNil(cnd)
					if !ok {
						return false
					}
					failSucc0 := from.Succs[0]
					if neq != pol {
						failSucc0 = from.Succs[1]
					}
					// the very value whose nil edge the walk started on is nil on every later test as well
					// (`for err != nil && i < n { … }; if err != nil { return }` tests the header's phi twice)
					if ifi0, ok0 := core.LastInstr(start[0]).(*ssa.If); ok0 {
						c0, _ := core.StripNot(ifi0.Cond, true)
						if x0, _, isNil0 := errCmpNil(c0); isNil0 && x0 == x {
							return to == failSucc0
						}
					}
					ph, ok := x.(*ssa.Phi)
					if !ok || ph.Block() != from {
						return false
					}
					for i, pr := range from.Preds {
						if r0[pr] && !isDoErr(ph.Edges[i]) {
							return false
						}
					}
					failSucc := from.Succs[0]
					if neq != pol {
						failSucc = from.Succs[1]
					}
					return to == failSucc
				}
			}
			bad := ""
			edges := nilEdgesOf(fn, do)
			check := func(seen map[ssa.Instruction]bool) {
				for in := range seen {
					if ret, ok := in.(*ssa.Return); ok && !releases(ret) {
						if pos := p.Pos(ret.Pos()); bad == "" || pos < bad {
							bad = pos
						}
					}
				}
			}
			if len(edges) == 0 {
				check(core.Reach{Stop: releases, StopEdge: respNil}.FromInstr(do))
			}
			// a release registered before the error is looked at (`if resp != nil { defer resp.Close() }`)
			// covers the edges behind it: only edges that can be reached from the request without
			// passing a release (and without the response being nil) are starting points
			early := core.Reach{Stop: releases, StopEdge: respNil}.FromInstr(do)
			for _, e := range edges {
				if li := core.LastInstr(e[0]); li != nil && e[0] != do.Block() && !early[li] {
					continue
				}
				check(core.Reach{Stop: releases, StopEdge: errPhiCut(e)}.FromEdge(e[0], e[1]))
			}
			r.Check(bad == "", rule, p.FuncName(fn), label, p.Pos(do.Pos()), "the return at "+bad+" is reachable from the success edge of this request without the response being closed, deferred-closed, returned, stored or handed on: the request slot of the host stays taken for the lifetime of the client")
		}
	}
	if n == 0 {
		r.MissingAnchor(rule, "reghttp Do calls in scheme/reg")
	}
}

// ---------------------------------------------------------------------------------------------
// R12 no waiting for a slot while holding the layout's mutex

// c17R12: every holder of a layout's write slot needs the layout mutex (index and bookkeeping
// updates) before it can finish and give the slot back. A caller that waits for a slot with that
// mutex held is never admitted once the queue is full: the whole layout hangs.
func c17R12(p *core.Prog, r *core.Report) {
	const rule = "C17.R12"
	r.Rule(rule, "no hold-and-wait between the layout mutex and its throttle: in scheme/ocidir a blocking Acquire / AcquireMulti of a request queue is made with the OCIDir mutex not held (must-hold lockset, helpers that run under their caller's lock included)", 1)
	li, _ := ocidirLockInfo(p)
	if li == nil {
		r.MissingAnchor(rule, ocidirRel+".OCIDir mutex")
		return
	}
	n := 0
	for _, fn := range pkgFuncs(p, ocidirRel) {
		lab := labeler{}
		core.Calls(fn, func(c ssa.CallInstruction) {
			cal := core.Callee(c)
			if cal == nil || cal.Pkg() == nil || cal.Pkg().Path() != modPath(pqRel) {
				return
			}
			if cal.Name() != "Acquire" && cal.Name() != "AcquireMulti" {
				return
			}
			if _, isCall := c.(*ssa.Call); !isCall {
				return
			}
			n++
			st := li.StateAt(c.(ssa.Instruction))
			r.Check(st == core.LNotHeld || st == core.LUnreached, rule, p.FuncName(fn), lab.next("waits for a slot"), p.Pos(c.Pos()),
				"the layout mutex is "+st.String()+" at this blocking acquire: the holders of the slots need that mutex to finish and release, so a waiter that holds it is never admitted")
		})
	}
	if n == 0 {
		r.MissingAnchor(rule, "blocking acquires in "+ocidirRel)
	}
}

// ---------------------------------------------------------------------------------------------
// R13 the source a blob reader has to close stays reachable for its Close

// c17R13: a blob read from a registry holds the request slot of its host until the response is
// closed, and the response is closed through the blob reader's Close, which closes the field the
// source was stored in. A method that clears that field without closing what it holds (a conversion
// that "hands the stream over") turns every later Close into a no-op: the slot is never returned.
func c17R13(p *core.Prog, r *core.Report) {
	const rule = "C17.R13"
	r.Rule(rule, "the source stays reachable for Close: the field of blob.BReader that its Close method closes is set to nil only inside Close itself (no other method of types/blob drops the source without closing it)", 1)
	br := p.Named("types/blob", "BReader")
	var closeFn *ssa.Function
	if br != nil {
		closeFn = p.MethodOf(br, "Close")
	}
	if closeFn == nil {
		r.MissingAnchor(rule, "types/blob.(*BReader).Close")
		return
	}
	// the fields Close looks at to find what it closes: loads of fields of the receiver that reach a
	// type assertion to a closer or an invoke of Close
	closed := map[string]bool{}
	for _, g := range sortedFuncs(core.Helpers(closeFn, 2)) {
		for _, b := range g.Blocks {
			for _, in := range b.Instrs {
				var v ssa.Value
				switch x := in.(type) {
				case *ssa.TypeAssert:
					v = x.X
				case ssa.CallInstruction:
					if x.Common().IsInvoke() && x.Common().Method.Name() == "Close" {
						v = x.Common().Value
					}
				}
				if v == nil {
					continue
				}
				for _, o := range core.Origins(v, core.SliceOpts{}) {
					if o.Kind == core.OField {
						closed[o.Field] = true
					}
				}
			}
		}
	}
	if len(closed) == 0 {
		r.Undecided(rule, p.FuncName(closeFn), "field closed by Close", p.Pos(closeFn.Pos()), "Close does not close a field of the reader in a form this rule recognises")
		return
	}
	inClose := core.Helpers(closeFn, 2)
	n := 0
	lab := labeler{}
	for _, fs := range fieldStores(pkgFuncs(p, "types/blob"), func(nm *types.Named, f string) bool { return nm == br && closed[f] }) {
		if !core.IsNilConst(fs.Store.Val) {
			continue
		}
		n++
		_, fld := core.FieldAddrInfo(fs.Addr)
		r.Check(inClose[fs.Fn], rule, p.FuncName(fs.Fn), lab.next("source field "+fld+" cleared"), p.Pos(fs.Store.Pos()),
			"the field that Close closes is set to nil without closing what it holds: the reader's Close becomes a no-op, the response behind the blob is never closed and the request slot of its host is lost")
	}
	if n == 0 {
		r.Held(rule, p.FuncName(closeFn), "source field cleared", p.Pos(closeFn.Pos()), "no method of the package sets the field(s) that Close closes to nil")
	}
}

package rules

import (
	"fmt"
	"go/ast"
	"go/token"
	"go/types"
	"strings"

	"golang.org/x/tools/go/ssa"

	"verif/internal/core"
)

func init() {
	register(&Spec{
		ID: "C14",
		Decides: "in BlobCopy the read from the source is unreachable from the same-repository edge, from the 'target already has it' edge of the HEAD and from the success edge of the mount, every path to it passes the HEAD on the target and (for one registry) the mount attempt; the registry scheme's mount always issues its request; " +
			"every blob copy of the traversal goes through the per-digest gate, whose key is the target repository (tag and digest cleared) plus the blob digest, taken before the copy; the descent into entries, config and layers is behind the not-same-repository edge; " +
			"every path to the manifest write passes 'no target manifest', 'digests differ' or 'recursion forced'.",
		NotCovered: "request traces for all sharing patterns; whether registries grant mounts; timing of concurrent HEADs.",
		Run:        runC14,
	})
}

func runC14(p *core.Prog, r *core.Report) {
	c14R1(p, r)
	c14R2(p, r)
	c14R3(p, r)
	c14R4(p, r)
	c14R5(p, r)
	c14R6(p, r)
	// the target's head request resolves the tag exactly (shared with C06.R6): a stale entry that is
	// matched loosely makes every repeated copy rewrite the layout
	c06R6(p, r, "C14.R7")
	c14R8(p, r)
	indexFreshRule(p, r, "C14.R9")
	// "nothing to transfer" is decided by the references' own fields (shared with C04.R16)
	refIdentityRule(p, r, "C14.R10")
}

// c14R6: whether anything has to be written is decided by asking the target. The head request on the
// target comes before the source manifest is fetched, on every path.
func c14R6(p *core.Prog, r *core.Report) {
	const rule = "C14.R6"
	r.Rule(rule, "the target is always asked first: in the copy traversal a ManifestHead on the target reference dominates every ManifestGet on the source (a copy that skips the head request cannot see that the target already holds the image and writes it again)", 1)
	trav := copyTraversal(p)
	if trav == nil {
		r.MissingAnchor(rule, "copy traversal")
		return
	}
	paramOf := func(v ssa.Value) *ssa.Parameter {
		var out *ssa.Parameter
		for _, o := range core.Origins(v, core.SliceOpts{Through: refThroughAll}) {
			if o.Kind == core.OParam && core.IsModNamed(o.Param.Type(), "types/ref", "Ref") {
				out = o.Param
			}
		}
		return out
	}
	var tgt *ssa.Parameter
	for _, c := range core.CallsTo(trav, func(f *types.Func) bool { return core.IsModMethod(f, ".", "RegClient", "ManifestPut") }) {
		if pr := paramOf(core.CallArg(c, 2)); pr != nil {
			tgt = pr
		}
	}
	if tgt == nil {
		r.MissingAnchor(rule, "target reference parameter of the copy traversal (argument of ManifestPut)")
		return
	}
	var heads, gets []ssa.CallInstruction
	for _, c := range core.CallsTo(trav, func(f *types.Func) bool { return core.IsModMethod(f, ".", "RegClient", "ManifestHead") }) {
		if paramOf(core.CallArg(c, 2)) == tgt {
			heads = append(heads, c)
		}
	}
	// a helper of the traversal that is handed the target and asks it
	isHead := func(f *types.Func) bool { return core.IsModMethod(f, ".", "RegClient", "ManifestHead") }
	core.Calls(trav, func(c ssa.CallInstruction) {
		h := core.CalleeFn(c)
		if h == nil || h == trav || !core.Helpers(trav, 2)[h] {
			return
		}
		for i, a := range c.Common().Args {
			if i >= len(h.Params) || paramOf(a) != tgt {
				continue
			}
			for _, g := range sortedFuncs(core.Helpers(h, 1)) {
				for _, hc := range core.CallsTo(g, isHead) {
					for _, o := range core.Origins(core.CallArg(hc, 2), core.SliceOpts{Through: refThroughAll, Helpers: core.Helpers(h, 1), Callers: core.Helpers(h, 1)}) {
						if o.Kind == core.OParam && o.Param == h.Params[i] {
							heads = append(heads, c)
						}
					}
				}
			}
		}
	})
	for _, c := range core.CallsTo(trav, func(f *types.Func) bool { return core.IsModMethod(f, ".", "RegClient", "ManifestGet") }) {
		if pr := paramOf(core.CallArg(c, 2)); pr != nil && pr != tgt {
			gets = append(gets, c)
		}
	}
	if len(heads) == 0 || len(gets) == 0 {
		r.Undecided(rule, p.FuncName(trav), "target head / source get", p.Pos(trav.Pos()), fmt.Sprintf("%d head request(s) on the target, %d manifest fetch(es) from the source found", len(heads), len(gets)))
		return
	}
	lab := labeler{}
	for _, g := range gets {
		ok := false
		for _, h := range heads {
			if core.DominatesInstr(h.(ssa.Instruction), g.(ssa.Instruction)) {
				ok = true
			}
		}
		r.Check(ok, rule, p.FuncName(trav), lab.next("source fetch behind target head"), p.Pos(g.Pos()), "the source manifest can be fetched on a path that never asked the target what it holds: the comparison with the target's digest cannot short-circuit, and an identical image is written again")
	}
}

// edgeOfCall returns the CFG edges on which the boolean result of a call satisfying pred is `val`.
func boolCallEdges(fn *ssa.Function, pred func(*types.Func) bool, val bool) [][2]*ssa.BasicBlock {
	var out [][2]*ssa.BasicBlock
	for _, b := range fn.Blocks {
		ifi, ok := core.LastInstr(b).(*ssa.If)
		if !ok {
			continue
		}
		cnd, pol := core.StripNot(ifi.Cond, true)
		c, ok := cnd.(*ssa.Call)
		if !ok {
			continue
		}
		cal := core.Callee(c)
		if cal == nil || !pred(cal) {
			continue
		}
		// cond (stripped) true goes to Succs[0] iff pol
		if val == pol {
			out = append(out, [2]*ssa.BasicBlock{b, b.Succs[0]})
		} else {
			out = append(out, [2]*ssa.BasicBlock{b, b.Succs[1]})
		}
	}
	return out
}

// nilErrEdgesOf returns the edges on which the error result of call w is known nil.
func nilErrEdgesOf(fn *ssa.Function, w *ssa.Call) [][2]*ssa.BasicBlock {
	var out [][2]*ssa.BasicBlock
	for _, e := range errEdgesOf(fn, w) {
		from := e[0]
		other := from.Succs[0]
		if other == e[1] {
			other = from.Succs[1]
		}
		out = append(out, [2]*ssa.BasicBlock{from, other})
	}
	return out
}

// successEdgesIn returns the edges of top on which call w is known to have succeeded: the nil-error
// edges of w itself when it is made in top; when it is made in a helper of top, the edges of top on
// which the helper reported that success — the nil edges of the helper's own error result when that
// is w's error, or the edges of a branch on the helper's bool result when every return of the helper
// hands back `err == nil` / `err != nil` of w's error.
func successEdgesIn(top *ssa.Function, w *ssa.Call) [][2]*ssa.BasicBlock {
	h := w.Parent()
	if h == top {
		return nilErrEdgesOf(top, w)
	}
	var out [][2]*ssa.BasicBlock
	res := h.Signature.Results()
	if res.Len() == 0 {
		return nil
	}
	last := res.Len() - 1
	fromW := func(v ssa.Value) bool {
		for _, oc := range originCalls(v) {
			if oc == w {
				return true
			}
		}
		return false
	}
	var sites []*ssa.Call
	core.Calls(top, func(c ssa.CallInstruction) {
		if call, ok := c.(*ssa.Call); ok && core.CalleeFn(c) == h {
			sites = append(sites, call)
		}
	})
	switch {
	case isErr(res.At(last).Type()):
		okAll := true
		for _, ret := range core.Returns(h) {
			v := core.ReturnOperand(ret, last)
			if core.IsNilConst(v) || fromW(v) || failureReturn(h, ret) {
				continue
			}
			okAll = false
		}
		if !okAll {
			return nil
		}
		for _, cs := range sites {
			out = append(out, nilErrEdgesOf(top, cs)...)
		}
	case types.Identical(res.At(last).Type(), types.Typ[types.Bool]):
		truth, set := false, false
		for _, ret := range core.Returns(h) {
			v, pol := core.StripNot(core.ReturnOperand(ret, last), true)
			if ph, isPhi := v.(*ssa.Phi); isPhi && pol {
				// `err == nil && more`: true only on edges that lie behind the nil test of w's error
				okPhi := true
				for i, e := range ph.Edges {
					if b, isC := core.ConstBool(e); isC && !b {
						continue
					}
					if !errGuardedNil(core.LastInstr(ph.Block().Preds[i]), w) {
						okPhi = false
					}
				}
				if !okPhi || (set && !truth) {
					return nil
				}
				truth, set = true, true
				continue
			}
			x, neq, isCmp := errCmpNil(v)
			if !isCmp || !fromW(x) {
				return nil
			}
			t := (!neq) == pol // the returned value is true when the error is nil
			if set && t != truth {
				return nil
			}
			truth, set = t, true
		}
		if !set {
			return nil
		}
		for _, cs := range sites {
			for _, b := range top.Blocks {
				ifi, ok := core.LastInstr(b).(*ssa.If)
				if !ok {
					continue
				}
				c, pol := core.StripNot(ifi.Cond, true)
				if ex, isEx := c.(*ssa.Extract); isEx && ex.Index == last {
					c = ex.Tuple
				}
				if c != ssa.Value(cs) {
					continue
				}
				// the condition (after stripping negations) is true on Succs[0] iff pol
				if truth == pol {
					out = append(out, [2]*ssa.BasicBlock{b, b.Succs[0]})
				} else {
					out = append(out, [2]*ssa.BasicBlock{b, b.Succs[1]})
				}
			}
		}
	}
	return out
}

func c14R1(p *core.Prog, r *core.Report) {
	const rule = "C14.R1"
	r.Rule(rule, "transfer is the last resort: the source read in BlobCopy is behind the same-repository test, the target HEAD and (same registry) the mount attempt; the registry scheme's mount always sends its request", 6)
	bc := p.Method(".", "RegClient", "BlobCopy")
	if bc == nil {
		r.MissingAnchor(rule, "regclient.(*RegClient).BlobCopy")
		return
	}
	name := p.FuncName(bc)
	// the slow path (source read, target write) may live in an unexported helper of BlobCopy
	scope := core.Helpers(bc, 2)
	find := func(m string) []*ssa.Call {
		var out []*ssa.Call
		for _, f := range sortedFuncs(scope) {
			core.Calls(f, func(c ssa.CallInstruction) {
				if cal := core.Callee(c); cal != nil && core.IsClientOp(cal, m) {
					if call, ok := c.(*ssa.Call); ok {
						out = append(out, call)
					}
				}
			})
		}
		return out
	}
	gets, heads, mounts := find("BlobGet"), find("BlobHead"), find("BlobMount")
	if len(gets) == 0 || len(heads) == 0 || len(mounts) == 0 {
		r.Undecided(rule, name, "fast paths", p.Pos(bc.Pos()), "BlobGet / BlobHead / BlobMount not all found in BlobCopy")
		return
	}
	sameRepo := func(f *types.Func) bool { return core.IsModFunc(f, "types/ref", "EqualRepository") }
	sameReg := func(f *types.Func) bool { return core.IsModFunc(f, "types/ref", "EqualRegistry") }
	for _, g := range gets {
		pos := p.Pos(g.Pos())
		reached := func(edges [][2]*ssa.BasicBlock) bool {
			for _, e := range edges {
				if (core.DeepReach{Scope: scope}).FromEdge(e[0], e[1])[g] {
					return true
				}
			}
			return false
		}
		er := boolCallEdges(bc, sameRepo, true)
		r.Check(len(er) > 0 && !reached(er), rule, name, "same repository moves nothing", pos, "the source read must be unreachable from the true edge of ref.EqualRepository(src, tgt)")
		var headOK [][2]*ssa.BasicBlock
		for _, h := range heads {
			headOK = append(headOK, successEdgesIn(bc, h)...)
		}
		r.Check(len(headOK) > 0 && !reached(headOK), rule, name, "existing blob is not fetched", pos, "the source read must be unreachable from the edge on which the HEAD of the target succeeded")
		var mountOK [][2]*ssa.BasicBlock
		for _, m := range mounts {
			mountOK = append(mountOK, successEdgesIn(bc, m)...)
		}
		r.Check(len(mountOK) > 0 && !reached(mountOK), rule, name, "mounted blob is not fetched", pos, "the source read must be unreachable from the edge on which the server-side mount succeeded")
		// must pass the HEAD
		isHead := func(in ssa.Instruction) bool {
			for _, h := range heads {
				if in == ssa.Instruction(h) {
					return true
				}
			}
			return false
		}
		r.Check(!(core.DeepReach{Reach: core.Reach{Stop: isHead}, Scope: scope}).FromEntry(bc)[g], rule, name, "HEAD on the target before any transfer", pos, "every path to the source read passes a HEAD of the blob in the target repository")
		// must pass the mount or the different-registry edge
		isMount := func(in ssa.Instruction) bool {
			for _, m := range mounts {
				if in == ssa.Instruction(m) {
					return true
				}
			}
			return false
		}
		diffReg := map[[2]*ssa.BasicBlock]bool{}
		for _, e := range boolCallEdges(bc, sameReg, false) {
			diffReg[e] = true
		}
		seen := core.DeepReach{Reach: core.Reach{Stop: isMount, StopEdge: func(a, b *ssa.BasicBlock) bool { return diffReg[[2]*ssa.BasicBlock{a, b}] }}, Scope: scope}.FromEntry(bc)
		r.Check(len(diffReg) > 0 && !seen[g], rule, name, "mount attempted on the same registry", pos, "every path to the source read passes the mount attempt or the edge on which source and target are on different registries")
	}
	// scheme/reg BlobMount: the request is unconditional
	rm := p.Method("scheme/reg", "Reg", "BlobMount")
	if rm == nil {
		r.MissingAnchor(rule, "scheme/reg.(*Reg).BlobMount")
		return
	}
	var req ssa.Instruction
	core.Calls(rm, func(c ssa.CallInstruction) {
		if g := core.CalleeFn(c); g != nil && canon(g) == "blobMount" {
			req = c.(ssa.Instruction)
		}
	})
	if req == nil {
		doers := reachers(p, httpDoers(p))
		core.Calls(rm, func(c ssa.CallInstruction) {
			if g := core.CalleeFn(c); g != nil && doers[g] && req == nil {
				req = c.(ssa.Instruction)
			}
		})
	}
	if req == nil {
		r.Undecided(rule, p.FuncName(rm), "mount request", p.Pos(rm.Pos()), "no request-issuing call found")
		return
	}
	ok := true
	for in := range (core.Reach{Stop: func(in ssa.Instruction) bool { return in == req }}).FromEntry(rm) {
		if _, isRet := in.(*ssa.Return); isRet {
			ok = false
		}
	}
	r.Check(ok, rule, p.FuncName(rm), "mount request is unconditional", p.Pos(req.Pos()), "no return is reachable before the mount request is sent: a remembered refusal must not suppress later mounts the registry would grant (registries decline per request)")
}

func c14R2(p *core.Prog, r *core.Report) {
	const rule = "C14.R2"
	r.Rule(rule, "once per digest: every blob copy of the traversal goes through the gate; the gate's key is the target repository with tag and digest cleared plus the blob digest", 2)
	trav := copyTraversal(p)
	sow := p.Func(".", "imageSeenOrWait")
	if trav == nil || sow == nil {
		r.MissingAnchor(rule, "copy traversal / imageSeenOrWait")
		return
	}
	// no direct BlobCopy in the traversal
	direct := ""
	for _, f := range core.WithAnon(trav) {
		core.Calls(f, func(c ssa.CallInstruction) {
			if cal := core.Callee(c); cal != nil && core.IsModMethod(cal, ".", "RegClient", "BlobCopy") {
				direct = p.Pos(c.Pos())
			}
		})
	}
	r.Check(direct == "", rule, p.FuncName(trav), "blob copies go through the gate", p.Pos(trav.Pos()), "the traversal must not call BlobCopy directly ("+direct+"): shared blobs would be transferred once per referencing manifest")
	// the key under which the gate records an entry: the key of the store into the seen map. Its
	// repository part is CommonName() of the target with tag and digest cleared by SetTag(""), computed
	// in the gate itself or handed in by every caller
	lab := map[string]labeler{}
	cleared := func(cn *ssa.Call) bool {
		for _, stc := range originCalls(core.CallArg(cn, 0)) {
			if cal := core.Callee(stc); cal != nil && core.IsModMethod(cal, "types/ref", "Ref", "SetTag") {
				if s, isC := core.ConstString(stc.Call.Args[len(stc.Call.Args)-1]); isC && s == "" {
					return true
				}
			}
		}
		return false
	}
	isCommonName := func(c *ssa.Call) bool {
		cal := core.Callee(c)
		return cal != nil && core.IsModMethod(cal, "types/ref", "Ref", "CommonName")
	}
	const badKey = "the repository part of the key is not CommonName() of the target ref with tag and digest cleared by SetTag(\"\"): a key that keeps the digest of the referencing manifest makes every platform copy its own copy of a shared layer"
	// the store may sit in a helper of the gate (claim / wait split): its key is followed back into
	// the gate through the helper's parameters
	gateUnit := core.Helpers(sow, 2)
	var keyLeaves []ssa.Value
	for _, gf := range sortedFuncs(gateUnit) {
		for _, blk := range gf.Blocks {
			for _, in := range blk.Instrs {
				if mu, ok := in.(*ssa.MapUpdate); ok && isStringType(mu.Key.Type()) {
					keyLeaves = append(keyLeaves, pathLeaves(mu.Key)...)
				}
			}
		}
	}
	if len(keyLeaves) == 0 {
		r.Undecided(rule, p.FuncName(sow), "gate key", p.Pos(sow.Pos()), "no store into a string-keyed map found in the gate")
	}
	inGate := false
	var repoParams []int
	var leaves2 []ssa.Value
	for _, l := range keyLeaves {
		// a leaf that is a helper's parameter: the leaves of what the gate passes there
		expanded := false
		for _, o := range core.Origins(l, core.SliceOpts{Helpers: gateUnit}) {
			if o.Val != nil && o.Val != l && o.Val.Parent() == sow && isStringType(o.Val.Type()) {
				leaves2 = append(leaves2, pathLeaves(o.Val)...)
				expanded = true
			}
		}
		if !expanded {
			leaves2 = append(leaves2, l)
		}
	}
	keyLeaves = leaves2
	for _, l := range keyLeaves {
		for _, o := range core.Origins(l, core.SliceOpts{Helpers: gateUnit}) {
			switch o.Kind {
			case core.OCall:
				if isCommonName(o.Call) {
					inGate = true
					r.Check(cleared(o.Call), rule, p.FuncName(sow), "gate key", p.Pos(o.Call.Pos()), map[bool]string{true: "key = tgt.SetTag(\"\").CommonName() computed in the gate (SetTag clears tag and digest)", false: badKey}[cleared(o.Call)])
				}
			case core.OParam:
				if isStringType(o.Param.Type()) && !core.IsNamed(o.Param.Type(), "github.com/opencontainers/go-digest", "Digest") {
					for i, q := range sow.Params {
						if q == o.Param {
							repoParams = append(repoParams, i)
						}
					}
				}
			}
		}
	}
	if !inGate {
		for _, st := range p.Callers(sow) {
			c, ok := st.Site.(*ssa.Call)
			if !ok || core.CalleeFn(c) != sow {
				continue
			}
			fname := p.FuncName(st.From)
			if lab[fname] == nil {
				lab[fname] = labeler{}
			}
			okKey := false
			for _, idx := range repoParams {
				if idx >= len(c.Call.Args) {
					continue
				}
				for _, cn := range originCallsDeep(p, c.Call.Args[idx], 2) {
					if isCommonName(cn) && cleared(cn) {
						okKey = true
					}
				}
			}
			r.Check(okKey, rule, fname, lab[fname].next("gate key"), p.Pos(c.Pos()), map[bool]string{true: "key = refTgt.SetTag(\"\").CommonName() (SetTag clears tag and digest)", false: badKey}[okKey])
		}
	}
	// the blob wrapper takes the gate before the copy
	for _, fn := range pkgFuncs(p, ".") {
		var gate, cp *ssa.Call
		core.Calls(fn, func(c ssa.CallInstruction) {
			call, ok := c.(*ssa.Call)
			if !ok {
				return
			}
			if core.CalleeFn(c) == sow {
				gate = call
			}
			if cal := core.Callee(c); cal != nil && core.IsModMethod(cal, ".", "RegClient", "BlobCopy") {
				cp = call
			}
		})
		if gate == nil || cp == nil {
			continue
		}
		okDom := core.DominatesInstr(gate, cp)
		// when the gate returns no callback the copy must not happen
		skip := false
		for _, b := range fn.Blocks {
			ifi, isIf := core.LastInstr(b).(*ssa.If)
			if !isIf {
				continue
			}
			cnd, pol := core.StripNot(ifi.Cond, true)
			x, neq, isNil := errCmpNil(cnd)
			if !isNil {
				continue
			}
			for _, o := range core.Origins(x, core.SliceOpts{}) {
				if o.Kind == core.OCall && o.Call == gate && o.Res == 0 {
					nilEdge := b.Succs[0]
					if neq == pol {
						nilEdge = b.Succs[1]
					}
					if !(core.Reach{}).FromEdge(b, nilEdge)[cp] {
						skip = true
					}
				}
			}
		}
		r.Check(okDom && skip, rule, p.FuncName(fn), "gate before copy", p.Pos(cp.Pos()), "the per-digest gate dominates BlobCopy and the copy is unreachable when the digest was already taken by another goroutine")
	}
}

func c14R3(p *core.Prog, r *core.Report) {
	const rule = "C14.R3"
	r.Rule(rule, "retagging within one repository moves nothing: every goroutine that copies an index entry, the config or a layer is started behind the false edge of ref.EqualRepository(src, tgt)", 2)
	trav := copyTraversal(p)
	if trav == nil {
		r.MissingAnchor(rule, "copy traversal")
		return
	}
	name := p.FuncName(trav)
	lab := labeler{}
	// spawn wrappers: literals of the traversal that start a goroutine for a function they are given
	wrappers := map[*ssa.Function]bool{}
	for _, lit := range trav.AnonFuncs {
		core.Calls(lit, func(c ssa.CallInstruction) {
			if _, isGo := c.(*ssa.Go); isGo {
				wrappers[lit] = true
			}
		})
	}
	for _, b := range trav.Blocks {
		for _, in := range b.Instrs {
			// a spawn site: a go statement, or a call of a spawn wrapper; task is what runs
			var task *ssa.Function
			switch x := in.(type) {
			case *ssa.Go:
				task = closureOf(x.Call.Value)
			case *ssa.Call:
				if w := closureOf(x.Call.Value); w != nil && wrappers[w] {
					for _, a := range x.Call.Args {
						if t := closureOf(a); t != nil {
							task = t
						}
					}
				}
			}
			if task == nil {
				continue
			}
			// classify the goroutine: copies a blob of this manifest or an entry of this index? (the body
			// may call an unexported helper that does it)
			content := false
			hs := core.HelpersExcept(task, 2, func(h *ssa.Function) bool { return h == trav || canon(h) == "imageCopyBlob" })
			for _, f := range sortedFuncs(hs) {
				core.Calls(f, func(c ssa.CallInstruction) {
					if gfn := core.CalleeFn(c); gfn != nil && canon(gfn) == "imageCopyBlob" {
						content = true
					}
					if core.CalleeFn(c) == trav {
						// index entry: the descriptor argument comes from the manifest list (free variable bound in a range over GetManifestList)
						for _, o := range core.Origins(core.CallArg(c, 4), core.SliceOpts{Helpers: hs, Callers: hs}) {
							if o.Kind == core.OCall && isInvoke(o.Call, "GetManifestList") {
								content = true
							}
						}
					}
				})
			}
			if !content {
				continue
			}
			ok2 := guardedBy(b, false, func(v ssa.Value) bool {
				c, isCall := v.(*ssa.Call)
				return isCall && core.Callee(c) != nil && core.IsModFunc(core.Callee(c), "types/ref", "EqualRepository")
			})
			r.Check(ok2, rule, name, lab.next("content goroutine"), p.Pos(in.Pos()), "started only when source and target repositories differ")
		}
	}
}

func c14R4(p *core.Prog, r *core.Report) {
	const rule = "C14.R4"
	r.Rule(rule, "an identical image writes nothing: every path to the manifest write passes 'target manifest absent', 'source and target digests differ' or 'recursion forced'", 1)
	trav := copyTraversal(p)
	if trav == nil {
		r.MissingAnchor(rule, "copy traversal")
		return
	}
	name := p.FuncName(trav)
	// the head requests on the target: the reference handed to ManifestHead derives from the second
	// reference parameter of the traversal (the source's head, used by the fast check, is not one)
	var tgtParam *ssa.Parameter
	nRef := 0
	for _, prm := range trav.Params {
		if core.IsModNamed(prm.Type(), "types/ref", "Ref") {
			nRef++
			if nRef == 2 {
				tgtParam = prm
			}
		}
	}
	var heads []*ssa.Call
	core.Calls(trav, func(c ssa.CallInstruction) {
		if cal := core.Callee(c); cal != nil && core.IsModMethod(cal, ".", "RegClient", "ManifestHead") {
			call, ok := c.(*ssa.Call)
			if !ok {
				return
			}
			onTarget := tgtParam == nil
			for _, o := range core.Origins(core.CallArg(c, 2), core.SliceOpts{Through: func(tc *ssa.Call) []int {
				if f := core.Callee(tc); f != nil && core.IsModNamed(core.CallArg(tc, 0).Type(), "types/ref", "Ref") && (f.Name() == "SetTag" || f.Name() == "SetDigest" || f.Name() == "AddDigest") {
					return []int{0}
				}
				return nil
			}}) {
				if o.Kind == core.OParam && o.Param == tgtParam {
					onTarget = true
				}
			}
			if onTarget {
				heads = append(heads, call)
			}
		}
	})
	fromHead := func(v ssa.Value) bool {
		for _, o := range core.Origins(v, core.SliceOpts{FieldsThrough: true, Through: func(c *ssa.Call) []int {
			if c.Call.IsInvoke() && c.Call.Method.Name() == "GetDescriptor" {
				return []int{0}
			}
			return nil
		}}) {
			if o.Kind == core.OCall && (o.Res == 0 || o.Res == -1) {
				for _, h := range heads {
					if o.Call == h {
						return true
					}
				}
			}
		}
		return false
	}
	justify := func(from, to *ssa.BasicBlock) bool {
		ifi, ok := core.LastInstr(from).(*ssa.If)
		if !ok {
			return false
		}
		cnd, pol := core.StripNot(ifi.Cond, true)
		// edge taken when cnd == want
		edgeFor := func(want bool) *ssa.BasicBlock {
			if want == pol {
				return from.Succs[0]
			}
			return from.Succs[1]
		}
		if x, neq, isNil := errCmpNil(cnd); isNil && fromHead(x) {
			// mTgt == nil
			return to == edgeFor(!neq)
		}
		if bo, isB := cnd.(*ssa.BinOp); isB && (bo.Op == token.NEQ || bo.Op == token.EQL) && isDigestType(bo.X.Type()) {
			_, xConst := bo.X.(*ssa.Const)
			_, yConst := bo.Y.(*ssa.Const)
			if !xConst && !yConst && (fromHead(bo.X) || fromHead(bo.Y)) {
				return to == edgeFor(bo.Op == token.NEQ)
			}
		}
		if fieldLoadOf(cnd, modPath("."), "imageOpt", "forceRecursive") {
			return to == edgeFor(true)
		}
		return false
	}
	n := 0
	core.Calls(trav, func(c ssa.CallInstruction) {
		cal := core.Callee(c)
		if cal == nil || !core.IsModMethod(cal, ".", "RegClient", "ManifestPut") {
			return
		}
		n++
		seen := core.Reach{StopEdge: justify, StopPhi: func(val ssa.Value, truth bool) bool {
			// `push := a || b || forced; if push`: the last disjunct arrives as the value of the phi
			return truth && fieldLoadOf(val, modPath("."), "imageOpt", "forceRecursive")
		}}.FromEntry(trav)
		r.Check(!seen[c.(ssa.Instruction)], rule, name, "manifest write justified", p.Pos(c.Pos()), "a path reaches the manifest write without passing mTgt == nil, sDig != target digest or forceRecursive: copying onto an identical image would re-push the manifest")
	})
	if n == 0 {
		r.MissingAnchor(rule, "ManifestPut in the traversal")
	}
}

// ---------------------------------------------------------------------------------------------
// R5 an absent Content-Length is not a wrong length

func c14R5(p *core.Prog, r *core.Report) {
	const rule = "C14.R5"
	r.Rule(rule, "existence answers are not rejected for a missing length: in the registry scheme and its HTTP layer a response's ContentLength (which is -1 when the header is absent, as is legal for HEAD) is compared with an expected size only behind a test that it is known (> 0, >= 0 or != -1); otherwise every blob the target already has looks absent and is transferred again", 1)
	isCL := func(v ssa.Value) bool {
		if cv, ok := v.(*ssa.Convert); ok {
			v = cv.X
		}
		return fieldLoadOf(v, "net/http", "Response", "ContentLength")
	}
	n := 0
	for _, rel := range []string{"scheme/reg", "internal/reghttp", "."} {
		for _, fn := range pkgFuncs(p, rel) {
			lab := labeler{}
			for _, b := range fn.Blocks {
				for _, in := range b.Instrs {
					bo, ok := in.(*ssa.BinOp)
					if !ok {
						continue
					}
					switch bo.Op {
					case token.EQL, token.NEQ, token.LSS, token.GTR, token.LEQ, token.GEQ:
					default:
						continue
					}
					var other ssa.Value
					switch {
					case isCL(bo.X):
						other = bo.Y
					case isCL(bo.Y):
						other = bo.X
					default:
						continue
					}
					if _, isConst := other.(*ssa.Const); isConst {
						continue // the "is it known" test itself
					}
					n++
					label := lab.next("ContentLength compared with a size")
					known := anyGuard(b, func(c ssa.Value, pol bool) bool {
						g, ok := c.(*ssa.BinOp)
						if !ok {
							return false
						}
						k, isK := core.ConstInt(g.Y)
						if !isCL(g.X) || !isK {
							return false
						}
						switch {
						case g.Op == token.GTR && k >= -1:
							return pol
						case g.Op == token.GEQ && k >= 0:
							return pol
						case g.Op == token.NEQ && k == -1:
							return pol
						case g.Op == token.EQL && k == -1:
							return !pol
						case g.Op == token.LSS && k <= 0:
							return !pol
						case g.Op == token.LEQ && k <= -1:
							return !pol
						}
						return false
					})
					r.Check(known, rule, p.FuncName(fn), label, p.Pos(bo.Pos()), "the comparison is made only where the length is known; with -1 (no header) it would report a mismatch for content that is there")
				}
			}
		}
	}
	if n == 0 {
		r.Held(rule, "scheme/reg", "no response length is compared with an expected size", "", "nothing to guard")
	}
}

// c14R8: "is it there?" and "read it" look at the same file. The layout scheme opens and stats its
// files with the link-following calls throughout; an existence test that refuses links (Lstat, an
// open with O_NOFOLLOW) answers "absent" for content that every read of the same scheme returns,
// and a copy onto a layout whose blobs are links (dvc, git-annex, bazel, nix stores) transfers and
// rewrites everything on every run.
func c14R8(p *core.Prog, r *core.Report) {
	const rule = "C14.R8"
	r.Rule(rule, "presence and content are decided by the same file: package scheme/ocidir uses no link-refusing file call (os.Lstat, an open flag O_NOFOLLOW, in any build-tagged file of the configuration): an existence test that does not follow links reports content absent that reads of the same scheme return, and the copy onto such a layout is repeated in full each time", 1)
	pkg := p.Pkg(ocidirRel)
	if pkg == nil {
		r.MissingAnchor(rule, "package scheme/ocidir")
		return
	}
	bad := ""
	files := 0
	for _, f := range pkg.Syntax {
		files++
		ast.Inspect(f, func(n ast.Node) bool {
			switch x := n.(type) {
			case *ast.SelectorExpr:
				if x.Sel.Name == "O_NOFOLLOW" || x.Sel.Name == "AT_SYMLINK_NOFOLLOW" {
					bad = x.Sel.Name + " at " + p.Pos(x.Pos())
				}
				if fn, ok := pkg.TypesInfo.Uses[x.Sel].(*types.Func); ok && fn.Pkg() != nil {
					if (fn.Pkg().Path() == "os" || fn.Pkg().Path() == "syscall" || strings.HasSuffix(fn.Pkg().Path(), "x/sys/unix")) && (fn.Name() == "Lstat" || fn.Name() == "Fstatat") {
						bad = fn.FullName() + " at " + p.Pos(x.Pos())
					}
				}
			}
			return true
		})
	}
	r.Check(bad == "", rule, "scheme/ocidir", "link-following file calls only", "", fmt.Sprintf("%s: the test made with it does not see a blob that is a link, although the reads of the scheme do (%d files examined)", bad, files))
}

// ---------------------------------------------------------------------------------------------
// R9 the layout's index is what the file says now

// indexFreshRule: whether the target already holds the image is read off index.json. Other writers
// (another process, another client on the same directory) move tags by rewriting that file, so the
// index handed out by the index reader has to be decoded from the file by this very call. An index
// remembered from an earlier call — however carefully its staleness is guessed from size and
// modification time — answers with the tag's previous digest, and a copy of the image the layout
// already holds writes the manifest and the index again.
func indexFreshRule(p *core.Prog, r *core.Report, rule string) {
	r.Rule(rule, "the layout's index is read, not remembered: every return of the index reader of scheme/ocidir that can report success hands back an index built by this call (a local decoded into, a call result), never a value loaded from a field, a map or a package variable", 1)
	rds := roleSet(p, ocidirRel, "OCIDir", "readIndex")
	if len(rds) == 0 {
		r.MissingAnchor(rule, ocidirRel+".(*OCIDir).readIndex")
		return
	}
	for _, fn := range sortedFuncs(rds) {
		bad := ""
		n := 0
		for _, ret := range core.Returns(fn) {
			if len(ret.Results) == 0 || failureReturn(fn, ret) {
				continue
			}
			n++
			v := core.ReturnOperand(ret, 0)
			for _, o := range core.Origins(v, core.SliceOpts{Helpers: core.Helpers(fn, 2)}) {
				stale := o.Kind == core.OField || o.Kind == core.OGlobal
				if !stale && o.Val != nil {
					switch o.Val.(type) {
					case *ssa.Lookup, *ssa.Index, *ssa.IndexAddr:
						stale = true
					}
				}
				if stale {
					bad = p.Pos(ret.Pos()) + " (" + o.Describe() + ")"
				}
			}
		}
		if n == 0 {
			continue
		}
		r.Check(bad == "", rule, p.FuncName(fn), "index decoded by this call", p.Pos(fn.Pos()), "the index returned at "+bad+" was not read from index.json by this call: a tag moved by another writer of the directory is answered with its previous digest")
	}
}

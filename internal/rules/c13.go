package rules

import (
	"fmt"
	"go/ast"
	"go/token"
	"go/types"
	"strings"

	"golang.org/x/tools/go/cfg"
	"golang.org/x/tools/go/ssa"

	"verif/internal/core"
)

func init() {
	register(&Spec{
		ID: "C13",
		Decides: "in package mod every state-changing client call writes to a reference that does not originate from a source parameter; in the bottom-up serialiser nothing is pushed after the manifest of the same node; inline data stored into a descriptor comes from the same node as the descriptor (child body for a child descriptor, a blob read from the target by that descriptor for a layer or config) and every path that decides to carry inline data stores fresh bytes or compares against them; " +
			"the descriptor returned by the upload of a rewritten layer is compared with the computed digest and size and the mismatch edges return an error; a blob is copied from the reference it was read from.",
		NotCovered: "diff-id / history alignment (index arithmetic), idempotence, determinism, every option combination, byte-level content of rewritten layers.",
		Run:        runC13,
	})
}

func refThrough(c *ssa.Call) []int {
	cal := core.Callee(c)
	if cal != nil && core.IsModNamed(cal.Type().(*types.Signature).Recv().Type(), "types/ref", "Ref") {
		switch cal.Name() {
		case "SetDigest", "AddDigest", "SetTag":
			return []int{0}
		}
	}
	return nil
}

func safeRefThrough(c *ssa.Call) []int {
	cal := core.Callee(c)
	if cal == nil {
		return nil
	}
	sig, ok := cal.Type().(*types.Signature)
	if !ok || sig.Recv() == nil {
		return nil
	}
	if core.IsModNamed(sig.Recv().Type(), "types/ref", "Ref") {
		switch cal.Name() {
		case "SetDigest", "AddDigest":
			return []int{0}
		case "SetTag":
			// SetTag("") clears tag and digest: the result cannot name the source's tag any more
			if s, ok := core.ConstString(c.Call.Args[len(c.Call.Args)-1]); ok && s == "" {
				return nil
			}
			return []int{0}
		}
	}
	return nil
}

// sourceParams: Ref parameters that denote the source of a modification: a Ref parameter directly
// followed by another Ref parameter, and the Ref parameter of the exported entry point Apply.
func sourceParams(fn *ssa.Function) map[*ssa.Parameter]bool {
	out := map[*ssa.Parameter]bool{}
	isRef := func(p *ssa.Parameter) bool { return core.IsModNamed(p.Type(), "types/ref", "Ref") }
	for i, p := range fn.Params {
		if !isRef(p) {
			continue
		}
		if i+1 < len(fn.Params) && isRef(fn.Params[i+1]) {
			out[p] = true
		}
		if fn.Name() == "Apply" && fn.Parent() == nil {
			out[p] = true
		}
	}
	return out
}

func runC13(p *core.Prog, r *core.Report) {
	c13R1(p, r)
	c13R2(p, r)
	c13R3(p, r)
	c13R4(p, r)
	c13R5(p, r)
	c13R6(p, r)
	// the result is pushed by digest when no tag is given: in a layout that push must not replace the
	// untagged entries of other images, or the source is swept by the next collection (shared with C06.R9)
	c06R9(p, r, "C13.R7")
	c13R8(p, r)
}

func c13R1(p *core.Prog, r *core.Report) {
	const rule = "C13.R1"
	r.Rule(rule, "mutations take the target: the written reference of every state-changing client call in package mod does not originate from a source parameter", 7)
	mut, _ := mutatingClientMethods(p)
	if len(mut) < 6 {
		r.Undecided(rule, "-", "mutating method set", "-", fmt.Sprintf("only %d mutating client methods computed", len(mut)))
	}
	for _, fn := range pkgFuncs(p, "mod") {
		lab := labeler{}
		core.Calls(fn, func(c ssa.CallInstruction) {
			g := core.CalleeFn(c)
			if g == nil || !mut[g] {
				return
			}
			idx := 2
			if g.Name() == "BlobCopy" || g.Name() == "ImageCopy" || g.Name() == "BlobMount" {
				idx = 3
			}
			arg := core.CallArg(c, idx)
			fname := p.FuncName(fn)
			label := lab.next(g.Name() + " target")
			bad := ""
			for _, o := range core.Origins(arg, core.SliceOpts{Through: safeRefThrough}) {
				switch o.Kind {
				case core.OParam:
					if srcOf(o.Param) {
						bad = "parameter " + o.Param.Name()
					}
				case core.OFree:
					// captured variable: resolve the name in the enclosing functions
					if fv, ok := o.Val.(*ssa.FreeVar); ok {
						for par := fn.Parent(); par != nil; par = par.Parent() {
							for _, pp := range par.Params {
								if pp.Name() == fv.Name() && srcOf(pp) {
									bad = "captured source parameter " + fv.Name()
								}
							}
						}
					}
				}
			}
			if bad != "" {
				r.Violated(rule, fname, label, p.Pos(c.Pos()), "the reference written by "+g.Name()+" originates from the source ("+bad+"): the source image or its tag would be altered")
			} else {
				r.Held(rule, fname, label, p.Pos(c.Pos()), "written reference does not originate from a source parameter")
			}
		})
	}
}

func srcOf(par *ssa.Parameter) bool { return sourceParams(par.Parent())[par] }

func c13R2(p *core.Prog, r *core.Report) {
	const rule = "C13.R2"
	r.Rule(rule, "bottom-up: after the manifest of a node is pushed nothing else of that node is pushed (children, config and referrers precede it); non-top manifests are pushed by digest with the child option", 2)
	fn := p.Func("mod", "dagPut")
	if fn == nil {
		r.MissingAnchor(rule, "mod.dagPut")
		return
	}
	fname := p.FuncName(fn)
	mut, _ := mutatingClientMethods(p)
	n := 0
	core.Calls(fn, func(c ssa.CallInstruction) {
		cal := core.Callee(c)
		if cal == nil || !core.IsModMethod(cal, ".", "RegClient", "ManifestPut") {
			return
		}
		n++
		bad := ""
		for in := range (core.Reach{}).FromInstr(c.(ssa.Instruction)) {
			c2, ok := in.(ssa.CallInstruction)
			if !ok {
				continue
			}
			g := core.CalleeFn(c2)
			if g == fn || (g != nil && mut[g]) {
				bad = g.Name() + " at " + p.Pos(in.Pos())
			}
		}
		if bad == "" {
			r.Held(rule, fname, "manifest pushed last", p.Pos(c.Pos()), "no push is reachable after the manifest push")
		} else {
			r.Violated(rule, fname, "manifest pushed last", p.Pos(c.Pos()), "after the manifest push "+bad+" is reachable: a manifest would be written before content it references")
		}
		// ref of a non-top push: SetDigest; options include the child option under the same guard
		refArg := core.CallArg(c, 2)
		byDigest := false
		for _, oc := range originCalls(refArg) {
			if f := core.Callee(oc); f != nil && f.Name() == "SetDigest" {
				byDigest = true
			}
		}
		r.Check(byDigest, rule, fname, "non-top manifests by digest", p.Pos(c.Pos()), "the pushed reference of a nested manifest comes from SetDigest (the target tag is only written for the top node)")
	})
	if n == 0 {
		r.MissingAnchor(rule, "ManifestPut in mod.dagPut")
	}
}

// nodeOf maps an access path to the DAG node it belongs to by dropping the last field:
// "var:dm.manifests[].m" and "call:GetDescriptor(var:dm.manifests[].m)" and
// "var:dm.manifests[].newDesc" all belong to node "dm.manifests[]"; "var:dm.m" belongs to "dm".
func nodeOf(ap string) string {
	if strings.HasPrefix(ap, "call:GetDescriptor(") {
		ap = strings.TrimSuffix(strings.TrimPrefix(ap, "call:GetDescriptor("), ")")
	}
	ap = strings.TrimPrefix(ap, "var:")
	if i := strings.LastIndex(ap, "."); i >= 0 {
		return ap[:i]
	}
	return ap
}

func c13R3(p *core.Prog, r *core.Report) {
	const rule = "C13.R3"
	r.Rule(rule, "inline data belongs to its descriptor: bytes stored into a descriptor's Data come from the same node (child body ⇔ child descriptor; blob read from the target with that descriptor ⇔ layer/config), and a branch that decides to carry inline data stores fresh bytes or compares against them on every path", 5)
	fn := p.Func("mod", "dagPut")
	if fn == nil {
		r.MissingAnchor(rule, "mod.dagPut")
		return
	}
	fname := p.FuncName(fn)
	lab := labeler{}
	srcs := sourceParams(fn)
	for _, fs := range fieldStores([]*ssa.Function{fn}, func(n *types.Named, f string) bool {
		return f == "Data" && n.Obj().Name() == "Descriptor"
	}) {
		val := fs.Store.Val
		// stripping (empty literal) is always fine
		if isEmptyBytes(val) {
			continue
		}
		// copying a descriptor's own Data along with it (d.Data -> list[i].Data) is propagation, not provenance
		if u, ok := val.(*ssa.UnOp); ok {
			if fa, ok := u.X.(*ssa.FieldAddr); ok && core.FieldName(fa.X.Type(), fa.Field) == "Data" {
				continue
			}
		}
		descAP := accessPath(fs.Addr.X)
		label := lab.next("Data of " + strings.TrimPrefix(descAP, "var:"))
		pos := p.Pos(fs.Store.Pos())
		ok := false
		detail := "origin of the stored bytes not recognised"
		for _, oc := range originCalls(val) {
			cal := core.Callee(oc)
			if cal == nil {
				continue
			}
			switch {
			case oc.Call.IsInvoke() && cal.Name() == "RawBody":
				// body of a manifest/config: same node as the descriptor's origin
				bodyRoot := nodeOf(accessPath(core.CallArg(oc, 0)))
				descRoots := map[string]bool{}
				// the descriptor variable is assigned from <node>.m.GetDescriptor() / <node>.newDesc
				if al := allocOf(fs.Addr.X); al != nil {
					for _, st := range core.StoresToCell(al) {
						descRoots[nodeOf(accessPath(st.Val))] = true
					}
				}
				if descRoots[bodyRoot] {
					ok = true
					detail = "body and descriptor both come from " + bodyRoot
				} else {
					detail = "the bytes are the body of '" + bodyRoot + "' but the descriptor belongs to another node: the inline data does not hash to the descriptor's digest"
				}
			case core.IsFunc(cal, "io", "ReadAll"):
				// reader from rc.BlobGet(ctx, <target>, <this descriptor>)
				for _, bg := range originCalls(oc.Call.Args[0]) {
					bcal := core.Callee(bg)
					if bcal == nil || !core.IsModMethod(bcal, ".", "RegClient", "BlobGet") {
						continue
					}
					refOK := true
					for _, o := range core.Origins(core.CallArg(bg, 2), core.SliceOpts{Through: safeRefThrough}) {
						if o.Kind == core.OParam && srcs[o.Param] {
							refOK = false
						}
					}
					dAP := accessPath(core.CallArg(bg, 3))
					same := dAP != "" && (dAP == descAP || strings.HasPrefix(descAP, dAP) || strings.HasPrefix(dAP, descAP))
					if refOK && same {
						ok = true
						detail = "blob read from the target with the same descriptor"
					} else if !refOK {
						detail = "inline data read from the source repository: it may differ from the rewritten blob at the target"
					} else {
						detail = "inline data read with descriptor '" + strings.TrimPrefix(dAP, "var:") + "' but stored into '" + strings.TrimPrefix(descAP, "var:") + "'"
					}
				}
			}
		}
		r.Check(ok, rule, fname, label, pos, detail)
	}
	// every branch that decides to carry inline data stores or compares on every path (AST)
	syn := p.Syntax(fn)
	if syn == nil || syn.Decl == nil {
		r.MissingAnchor(rule, "syntax of mod.dagPut")
		return
	}
	info := syn.Pkg.TypesInfo
	k := 0
	enclosingSwitch := map[*ast.CaseClause]*ast.SwitchStmt{}
	ast.Inspect(syn.Decl.Body, func(n ast.Node) bool {
		if sw, ok := n.(*ast.SwitchStmt); ok {
			for _, cl := range sw.Body.List {
				if cc, ok := cl.(*ast.CaseClause); ok {
					enclosingSwitch[cc] = sw
				}
			}
		}
		return true
	})
	ast.Inspect(syn.Decl.Body, func(n ast.Node) bool {
		// the decision is an if statement or a case of a tagless switch
		var body *ast.BlockStmt
		var at token.Pos
		switch x := n.(type) {
		case *ast.IfStmt:
			if !mentions(x.Cond, "maxDataSize") || !isLEQ(x.Cond) {
				return true
			}
			body, at = x.Body, x.Pos()
		case *ast.CaseClause:
			hit := false
			for _, e := range x.List {
				if mentions(e, "maxDataSize") && isLEQ(e) {
					hit = true
				}
			}
			if !hit {
				// the decision may be computed by a helper from the size limit: a case of
				// `switch decide(maxDataSize, desc)` that carries data (its body stores inline data)
				if sw := enclosingSwitch[x]; sw != nil && sw.Tag != nil && mentions(sw.Tag, "maxDataSize") && storesNonEmptyData(x.Body) {
					hit = true
				}
			}
			if !hit {
				return true
			}
			body, at = &ast.BlockStmt{Lbrace: x.Colon, List: x.Body, Rbrace: x.End()}, x.Pos()
		default:
			return true
		}
		type isT struct{ Body *ast.BlockStmt }
		is := isT{body}
		k++
		g := cfg.New(is.Body, core.MayReturn)
		ps := core.PathSpec{Info: info, CountA: func(n ast.Node) int {
			c := 0
			core.InspectNoLit(n, func(x ast.Node) bool {
				switch y := x.(type) {
				case *ast.AssignStmt:
					for _, l := range y.Lhs {
						if se, ok := l.(*ast.SelectorExpr); ok && se.Sel.Name == "Data" {
							c++
						}
					}
				case *ast.CallExpr:
					if se, ok := y.Fun.(*ast.SelectorExpr); ok && se.Sel.Name == "Equal" && len(y.Args) == 2 {
						if a, ok := y.Args[0].(*ast.SelectorExpr); ok && a.Sel.Name == "Data" {
							c++
						}
					}
				}
				return true
			})
			return c
		}}
		bad := false
		for b, sts := range ps.ExitStates(g, core.PState{}) {
			if len(b.Nodes) > 0 {
				if ret, isRet := b.Nodes[len(b.Nodes)-1].(*ast.ReturnStmt); isRet && ret.Return != is.Body.End()-1 {
					continue
				}
			}
			for s := range sts {
				if s.A == 0 {
					bad = true
				}
			}
		}
		label := fmt.Sprintf("data branch#%d", k)
		if bad {
			r.Violated(rule, fname, label, p.Pos(at), "a path through the 'carry inline data' branch neither stores freshly read bytes nor compares the existing data with them: stale inline data (e.g. of a layer rewritten to the same length) stays under the new digest")
		} else {
			r.Held(rule, fname, label, p.Pos(at), "every path stores fresh bytes or compares against them")
		}
		return true
	})
	if k < 3 {
		r.Undecided(rule, fname, "data branches", p.Pos(fn.Pos()), fmt.Sprintf("found %d 'carry inline data' branches, 3 confirmed by hand (child, layer, config)", k))
	}
}

func isEmptyBytes(v ssa.Value) bool {
	switch x := v.(type) {
	case *ssa.Slice:
		if al, ok := x.X.(*ssa.Alloc); ok {
			if arr, ok := al.Type().(*types.Pointer).Elem().(*types.Array); ok && arr.Len() == 0 {
				return true
			}
		}
	case *ssa.Const:
		return x.Value == nil
	case *ssa.MakeSlice:
		if k, ok := core.ConstInt(x.Len); ok && k == 0 {
			return true
		}
	}
	return false
}

func allocOf(v ssa.Value) *ssa.Alloc {
	for d := 0; d < 6 && v != nil; d++ {
		switch x := v.(type) {
		case *ssa.Alloc:
			return x
		case *ssa.FieldAddr:
			v = x.X
		case *ssa.IndexAddr:
			v = x.X
		default:
			return nil
		}
	}
	return nil
}

func mentions(e ast.Expr, name string) bool {
	found := false
	ast.Inspect(e, func(n ast.Node) bool {
		if se, ok := n.(*ast.SelectorExpr); ok && se.Sel.Name == name {
			found = true
		}
		return true
	})
	return found
}

func isLEQ(e ast.Expr) bool {
	found := false
	ast.Inspect(e, func(n ast.Node) bool {
		if be, ok := n.(*ast.BinaryExpr); ok && be.Op == token.LEQ {
			found = true
		}
		return true
	})
	return found
}

func c13R4(p *core.Prog, r *core.Report) {
	const rule = "C13.R4"
	r.Rule(rule, "pushed equals computed: the descriptor returned by BlobPut of a rewritten layer is compared with the computed digest and size; the mismatch edges return an error", 2)
	// the layer walk: function of package mod that creates digesters and calls BlobPut
	// the layer rewriter computes both the compressed and the uncompressed digest while writing; the
	// upload and its verification may live in an unexported helper it calls
	cands := map[*ssa.Function]bool{}
	for _, fn := range pkgFuncs(p, "mod") {
		nDigester := 0
		core.Calls(fn, func(c ssa.CallInstruction) {
			if cal := core.Callee(c); cal != nil && cal.Name() == "Digester" {
				nDigester++
			}
		})
		if nDigester >= 2 {
			for h := range core.Helpers(fn, 2) {
				cands[h] = true
			}
		}
	}
	for _, fn := range sortedFuncs(cands) {
		var put *ssa.Call
		core.Calls(fn, func(c ssa.CallInstruction) {
			if cal := core.Callee(c); cal != nil && core.IsModMethod(cal, ".", "RegClient", "BlobPut") {
				put, _ = c.(*ssa.Call)
			}
		})
		if put == nil {
			continue
		}
		fname := p.FuncName(fn)
		for _, field := range []string{"Digest", "Size"} {
			ok := false
			detail := "the " + field + " returned by BlobPut is never compared with the computed one"
			for _, b := range fn.Blocks {
				ifi, isIf := core.LastInstr(b).(*ssa.If)
				if !isIf {
					continue
				}
				cnd, pol := core.StripNot(ifi.Cond, true)
				bo, isB := cnd.(*ssa.BinOp)
				if !isB || (bo.Op != token.NEQ && bo.Op != token.EQL) {
					continue
				}
				fromPut := func(v ssa.Value) bool {
					f, isF := v.(*ssa.Field)
					if isF && core.FieldName(f.X.Type(), f.Field) == field {
						for _, oc := range originCalls(f.X) {
							if oc == put {
								return true
							}
						}
					}
					if u, isU := v.(*ssa.UnOp); isU {
						if fa, isFA := u.X.(*ssa.FieldAddr); isFA && core.FieldName(fa.X.Type(), fa.Field) == field {
							if al := allocOf(fa.X); al != nil {
								for _, st := range core.StoresToCell(al) {
									for _, oc := range originCalls(st.Val) {
										if oc == put {
											return true
										}
									}
								}
							}
						}
					}
					return false
				}
				if !fromPut(bo.X) && !fromPut(bo.Y) {
					continue
				}
				if k, isK := core.ConstString(bo.Y); isK && k == "" {
					continue
				}
				if k, isK := core.ConstInt(bo.Y); isK && k == 0 {
					continue
				}
				mismatch := b.Succs[0]
				if (bo.Op == token.NEQ) != pol {
					mismatch = b.Succs[1]
				}
				ok = true
				detail = "compared; mismatch edge returns an error"
				for in := range (core.Reach{}).FromEdge(b, mismatch) {
					if ret, isRet := in.(*ssa.Return); isRet && core.IsNilConst(core.ReturnOperand(ret, len(ret.Results)-1)) {
						// reaching a nil return from a mismatch is only a problem if it is reached without an error return first: straight-line check
						if mismatch == ret.Block() {
							ok = false
							detail = "the mismatch edge returns nil"
						}
					}
				}
				if _, isRet := core.LastInstr(mismatch).(*ssa.Return); !isRet {
					ok = false
					detail = "the mismatch edge does not return: a layer whose pushed " + field + " differs from the computed one is accepted"
				}
			}
			r.Check(ok, rule, fname, "pushed "+field+" compared", p.Pos(put.Pos()), detail)
		}
	}
}

func c13R5(p *core.Prog, r *core.Report) {
	const rule = "C13.R5"
	r.Rule(rule, "a blob is copied from where it is read: in a function that reads a blob with BlobGet(ctx, X, d) and copies the same descriptor with BlobCopy(ctx, Y, tgt, d), X and Y are the same reference", 1)
	for _, fn := range pkgFuncs(p, "mod") {
		type site struct {
			c   ssa.CallInstruction
			ref string
			d   string
			tgt string
		}
		var gets, copies []site
		core.Calls(fn, func(c ssa.CallInstruction) {
			cal := core.Callee(c)
			if cal == nil {
				return
			}
			if core.IsModMethod(cal, ".", "RegClient", "BlobGet") {
				gets = append(gets, site{c, accessPath(core.CallArg(c, 2)), accessPath(core.CallArg(c, 3)), ""})
			}
			if core.IsModMethod(cal, ".", "RegClient", "BlobCopy") {
				copies = append(copies, site{c, accessPath(core.CallArg(c, 2)), accessPath(core.CallArg(c, 4)), accessPath(core.CallArg(c, 3))})
			}
		})
		lab := labeler{}
		for _, cp := range copies {
			for _, g := range gets {
				if cp.d == "" || cp.d != g.d {
					continue
				}
				if g.ref != "" && g.ref == cp.tgt {
					continue // reading the blob back from the target after the copy
				}
				fname := p.FuncName(fn)
				ok := cp.ref != "" && cp.ref == g.ref
				r.Check(ok, rule, fname, lab.next("copy source of "+strings.TrimPrefix(cp.d, "var:")), p.Pos(cp.c.Pos()),
					"read from '"+strings.TrimPrefix(g.ref, "var:")+"' at "+p.Pos(g.c.Pos())+", copied from '"+strings.TrimPrefix(cp.ref, "var:")+"'"+map[bool]string{true: "", false: ": the blob may not exist in the repository it is copied from (layers pulled in from another base image), so it is missing at the target"}[ok])
			}
		}
	}
}

// ---------------------------------------------------------------------------------------------
// R6 nothing collects the target while the new content is still unreferenced

func c13R6(p *core.Prog, r *core.Report) {
	const rule = "C13.R6"
	r.Rule(rule, "no client Close before the manifests are written: the steps of a modification push layers and configs that nothing references until dagPut writes the manifests; RegClient.Close runs the layout's collector, so in package mod it may only run deferred in Apply or after dagPut", 1)
	apply := p.Func("mod", "Apply")
	if apply == nil {
		r.MissingAnchor(rule, "mod.Apply")
		return
	}
	var put ssa.Instruction
	core.Calls(apply, func(c ssa.CallInstruction) {
		if g := core.CalleeFn(c); g != nil && canon(g) == "dagPut" {
			put = c.(ssa.Instruction)
		}
	})
	if put == nil {
		r.MissingAnchor(rule, "call of dagPut in mod.Apply")
		return
	}
	n := 0
	for _, fn := range pkgFuncs(p, "mod") {
		lab := labeler{}
		for _, c := range core.CallsTo(fn, func(f *types.Func) bool { return core.IsModMethod(f, ".", "RegClient", "Close") }) {
			n++
			label := lab.next("RegClient.Close")
			switch {
			case fn != apply:
				r.Violated(rule, p.FuncName(fn), label, p.Pos(c.Pos()), "a modification step closes a reference: on an OCI layout this collects the layers and configs the earlier steps pushed, before any manifest refers to them; Apply then writes manifests whose blobs are gone")
			default:
				_, isDefer := c.(*ssa.Defer)
				if isDefer || !(core.Reach{}).FromInstr(c.(ssa.Instruction))[put] {
					r.Held(rule, p.FuncName(fn), label, p.Pos(c.Pos()), "runs after the manifests are written")
				} else {
					r.Violated(rule, p.FuncName(fn), label, p.Pos(c.Pos()), "dagPut is still reachable after this Close: pushed blobs are collected before a manifest refers to them")
				}
			}
		}
	}
	if n == 0 {
		r.Held(rule, "mod", "no RegClient.Close in package mod", "", "the collector cannot run between the steps and dagPut")
	}
}

// storesNonEmptyData: the statements assign something other than nil / an empty literal to a
// `.Data` selector (outside function literals).
func storesNonEmptyData(list []ast.Stmt) bool {
	found := false
	for _, st := range list {
		core.InspectNoLit(st, func(x ast.Node) bool {
			as, ok := x.(*ast.AssignStmt)
			if !ok {
				return true
			}
			for i, l := range as.Lhs {
				se, ok := l.(*ast.SelectorExpr)
				if !ok || se.Sel.Name != "Data" || i >= len(as.Rhs) {
					continue
				}
				if id, isId := as.Rhs[i].(*ast.Ident); isId && id.Name == "nil" {
					continue
				}
				if cl, isCL := as.Rhs[i].(*ast.CompositeLit); isCL && len(cl.Elts) == 0 {
					continue
				}
				found = true
			}
			return true
		})
	}
	return found
}

// c13R8: the diff-id is the digest of what the compressor reads. Where a function of package mod tees
// a stream into a digester and the teed stream (possibly through further stages) ends up in
// archive.Compress, the tee is the compressor's direct input. A stage in between (a decompressor for
// inputs that may already be compressed) makes the digester see bytes the layer does not consist of:
// the layer's descriptor is right, the diff-id recorded in every config is not.
func c13R8(p *core.Prog, r *core.Report) {
	const rule = "C13.R8"
	r.Rule(rule, "the uncompressed digest is taken at the compressor's input: in package mod, when the reader handed to archive.Compress derives from an io.TeeReader into a digester, it is that tee itself, with no other stage between them (the diff-id would be the digest of something other than the uncompressed layer)", 0)
	isReader := func(t types.Type) bool {
		n, ok := t.(*types.Named)
		return ok && n.Obj().Pkg() != nil && n.Obj().Pkg().Path() == "io" && (n.Obj().Name() == "Reader" || n.Obj().Name() == "ReadCloser" || n.Obj().Name() == "ReadSeeker")
	}
	isHashTee := func(c *ssa.Call) bool {
		f := core.Callee(c)
		if f == nil || !core.IsFunc(f, "io", "TeeReader") || len(c.Call.Args) < 2 {
			return false
		}
		for _, oc := range originCalls(c.Call.Args[1]) {
			if g := core.Callee(oc); g != nil && g.Name() == "Hash" {
				return true
			}
		}
		return false
	}
	through := func(c *ssa.Call) []int {
		if isHashTee(c) {
			return nil
		}
		var idx []int
		for i, a := range c.Call.Args {
			if isReader(a.Type()) {
				idx = append(idx, i)
			}
		}
		return idx
	}
	n := 0
	lab := map[*ssa.Function]labeler{}
	for _, fn := range pkgFuncs(p, "mod") {
		core.Calls(fn, func(c ssa.CallInstruction) {
			f := core.Callee(c)
			call, ok := c.(*ssa.Call)
			if !ok || f == nil || f.Pkg() == nil || f.Pkg().Path() != modPath("pkg/archive") || f.Name() != "Compress" || len(call.Call.Args) == 0 {
				return
			}
			arg := call.Call.Args[0]
			direct, derived := false, false
			for _, o := range core.Origins(arg, core.SliceOpts{}) {
				if o.Kind == core.OCall && o.Call != nil && isHashTee(o.Call) {
					direct = true
				}
			}
			for _, o := range core.Origins(arg, core.SliceOpts{Through: through}) {
				if o.Kind == core.OCall && o.Call != nil && isHashTee(o.Call) {
					derived = true
				}
			}
			if !derived {
				return
			}
			n++
			if lab[fn] == nil {
				lab[fn] = labeler{}
			}
			r.Check(direct, rule, p.FuncName(fn), lab[fn].next("input of archive.Compress"), p.Pos(c.Pos()),
				"the compressor's input comes from a digest tee through another stage: the digester sees the bytes before that stage, the layer consists of the bytes after it")
		})
	}
	if n == 0 {
		r.Held(rule, "mod", "input of archive.Compress", "", "no compressor input derives from a digest tee")
	}
}

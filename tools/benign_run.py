#!/usr/bin/env python3
"""Run every check against the benign refactorings delivered by sub-agents (as in-memory overlays).
usage: benign_run.py <ID>... ; reads /tmp/seed/<ID>/benign/N/patch.diff. Any report is a false alarm."""
import json, os, subprocess, sys, glob
from concurrent.futures import ThreadPoolExecutor
BIN = os.environ.get("RCVERIF", "/verif/bin/rcverif")
props = subprocess.run([BIN, "list"], capture_output=True, text=True).stdout.split()
def run(job):
    patch, prop = job
    out = subprocess.run([BIN, "mutant", "-property", prop, "-patch", patch], capture_output=True, text=True)
    try:
        d = json.loads(out.stdout)
    except Exception:
        return patch, prop, ["ERROR " + out.stderr[-300:]]
    if d.get("skipped") or d.get("load_error"):
        return patch, prop, ["SKIP/LOADERR " + str(d.get("skipped") or d.get("load_error"))[:200]]
    return patch, prop, sorted(set(v["rule"] + " " + v["func"] + " | " + v["construct"] + " :: " + v.get("detail", "")[:160] for v in d["violations"]))
jobs = []
for pid in sys.argv[1:]:
    for patch in sorted(glob.glob(f"/tmp/seed/{pid}/benign/*/patch.diff")):
        for p in props:
            jobs.append((patch, p))
res = {}
with ThreadPoolExecutor(8) as ex:
    for patch, prop, v in ex.map(run, jobs):
        if v:
            res.setdefault(patch, {})[prop] = v
for pid in sys.argv[1:]:
    for patch in sorted(glob.glob(f"/tmp/seed/{pid}/benign/*/patch.diff")):
        r = res.get(patch)
        print(patch, "ALARM" if r else "silent")
        for p, v in sorted((r or {}).items()):
            for x in v:
                print("    [" + p + "]", x)

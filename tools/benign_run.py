#!/usr/bin/env python3
"""Run checks against benign refactorings (as in-memory overlays). Any report is a false alarm.
usage: benign_run.py [--own] [--dir benign|benign2] <ID>...      patches /tmp/seed/<ID>/<dir>/N/patch.diff
       benign_run.py [--own] --stored [glob]                      patches /verif/selftest/variants/{b,b2,b3,b4,b5,b6}/<glob>.diff
--own: only the check of the property the variant was written for (default: every property)."""
import json, os, subprocess, sys, glob
from concurrent.futures import ThreadPoolExecutor
BIN = os.environ.get("RCVERIF", "/verif/bin/rcverif")
args = sys.argv[1:]
own = "--own" in args
args = [a for a in args if a != "--own"]
d = "benign"
if "--dir" in args:
    i = args.index("--dir"); d = args[i+1]; args = args[:i] + args[i+2:]
props = subprocess.run([BIN, "list"], capture_output=True, text=True).stdout.split()
if os.environ.get("PROPS"):
    props = os.environ["PROPS"].split()  # restrict the cross run to these properties
patches = []
if args and args[0] == "--stored":
    pat = args[1] if len(args) > 1 else "*"
    patches = [(p, os.path.basename(p).split("-")[0]) for p in sorted(glob.glob(f"/verif/selftest/variants/b/{pat}.diff") + glob.glob(f"/verif/selftest/variants/b2/{pat}.diff") + glob.glob(f"/verif/selftest/variants/b3/{pat}.diff") + glob.glob(f"/verif/selftest/variants/b4/{pat}.diff") + glob.glob(f"/verif/selftest/variants/b5/{pat}.diff") + glob.glob(f"/verif/selftest/variants/b6/{pat}.diff"))]
else:
    for pid in args:
        patches += [(p, pid) for p in sorted(glob.glob(f"/tmp/seed/{pid}/{d}/*/patch.diff"))]
def run(job):
    patch, prop = job
    out = subprocess.run([BIN, "mutant", "-property", prop, "-patch", patch], capture_output=True, text=True)
    try:
        r = json.loads(out.stdout)
    except Exception:
        return patch, prop, ["ERROR " + out.stderr[-300:]]
    if r.get("skipped") or r.get("load_error"):
        return patch, prop, ["SKIP/LOADERR " + str(r.get("skipped") or r.get("load_error"))[:200]]
    return patch, prop, sorted(set(v["rule"] + " " + v["func"].split(".")[-1] + " | " + v["construct"] + " :: " + v.get("detail", "")[:140] for v in r["violations"]))
jobs = [(p, q) for (p, o) in patches for q in ([o] if own else props)]
res = {}
with ThreadPoolExecutor(int(os.environ.get("JOBS", "8"))) as ex:
    for patch, prop, v in ex.map(run, jobs):
        if v:
            res.setdefault(patch, {})[prop] = v
n = 0
for patch, _ in patches:
    r = res.get(patch)
    if r:
        n += 1
    print(patch, "ALARM" if r else "silent", flush=True)
    for p, v in sorted((r or {}).items()):
        for x in v:
            print("    [" + p + "]", x)
print(f"alarming variants: {n} of {len(patches)}")

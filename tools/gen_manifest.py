#!/usr/bin/env python3
"""Generate /verif/MANIFEST.json from the table below (one entry per claimed property) and validate it.

Properties that are not in CLAIMED are listed under not_applicable with the reason in NOT_CLAIMED.
"""
import json, sys

ENV = "GOFLAGS=-mod=mod GOPROXY=off GOSUMDB=off GOTOOLCHAIN=local GOWORK=off"

TRUST = ("Trusted: go/types, go/ssa, go/packages (x/tools v0.29.0), the Go front end; the module-internal reference graph "
         "(static callees, closures, function values, interface calls resolved over module-defined types) is adequate because the analysed "
         "packages use no reflect calls on functions, no unsafe/cgo/linkname; third-party and standard-library functions behave as documented. "
         "Dead code is analysed like live code. Not a proof of the behavioural statement: ")

CLAIMED = {
    "C01": {
        "technique": "constructor-option audit (value origin of WithDesc), exhaustive path enumeration over the EOF handling of BReader.Read with per-path return-value resolution (P5), must-pass-through reset checks for Seek, mismatch-edge reachability",
        "text": "Structural necessary conditions: every blob.NewReader that wraps a stream in scheme/reg, scheme/ocidir and the client carries WithDesc of the caller's descriptor; all EOF paths of BReader.Read (enumerated, acyclic) evaluate the size test and the digest test and return a freshly built error whenever a mismatch edge was taken; LimitRead returns fresh errors on both limit edges and bounds its slice; Seek re-stores digester, verifying reader and every direct field Read writes before reporting success, and the new reader tees into the new digester; GetData returns data only behind the length and FromBytes digest comparisons; the Content-Range / Content-Length resume guards return errors; the raw stream fields are private to the reader.",
        "note": "hash computation, the byte arithmetic for every slicing of reads, the off-by-one inside LimitRead and drop/resume sequences as such are not decided.",
        "design": "DESIGN.md §3 C01",
    },
    "C05": {
        "technique": "value-origin of the copied stream (no truncating wrapper), mismatch-edge reachability to the commit point (rename / closing PUT), must-pass-through of the rewind and of the cancel request on go/ssa",
        "text": "Structural necessary conditions: layout BlobPut copies io.TeeReader(caller's reader, digester.Hash()) (bufio allowed, LimitReader not) and its rename is unreachable from the digest- and size-mismatch edges; the closing PUT of a chunked upload is unreachable from the digest- and size-mismatch edges, its digest= parameter and the returned digest come from the digester; after a failed single PUT the chunked upload is reachable only through Seek on the source and unreachable from the failed-rewind edges; every failure edge of an upload step reaches a return only through blobUploadCancel (or the fall-back); the single PUT's body function rewinds or returns ErrNotRetryable.",
        "note": "the four coupled offsets of the chunk loop (seeded change C05-1 is numeric and not detected), minimum-chunk handling and the server's own digest check are not decided.",
        "design": "DESIGN.md §3 C05",
    },
    "C13": {
        "technique": "value-origin of written references (source-parameter taint with SetTag(\"\") as barrier), reachability after the manifest push, access-path identity of DAG nodes for inline data, go/cfg path counting over the carry-inline-data branches, comparison-edge checks",
        "text": "Structural necessary conditions: no state-changing client call in package mod writes to a reference originating from a source parameter (SetTag(\"\") clears the tag); nothing is pushed after a node's manifest; inline Data stored into a descriptor comes from the same DAG node (child body ⇔ child descriptor; blob read from the target with that descriptor) and every path through a carry-inline-data branch stores fresh bytes or compares against them; the digest and size returned by the upload of a rewritten layer are compared with the computed ones and the mismatch edges return; a blob is copied from the reference it was read from.",
        "note": "diff-id/history alignment, idempotence, determinism and option combinations are not decided.",
        "design": "DESIGN.md §3 C13",
    },
    "C14": {
        "technique": "edge-restricted reachability (P3) in BlobCopy and the copy traversal, value-origin of the per-digest gate key (looking through small helpers), dominating guards of the content goroutines",
        "text": "Ordering core: the source BlobGet in BlobCopy is unreachable from the same-repository edge, the target-HEAD-succeeded edge and the mount-succeeded edge, and every path to it passes the HEAD and (same registry) the mount attempt; the registry scheme's BlobMount reaches no return before its request; the traversal never calls BlobCopy directly, every gate key is refTgt.SetTag(\"\").CommonName() (tag and digest cleared), the gate dominates the copy; content goroutines start only behind !EqualRepository; every path to the ManifestPut passes mTgt == nil, sDig != target digest or forceRecursive.",
        "note": "request traces for all sharing patterns, whether registries grant mounts and the timing of concurrent HEADs are not decided.",
        "design": "DESIGN.md §3 C14",
    },
    "C18": {
        "technique": "reference-graph reachability with edges behind the action gate removed, constant/parameter audit of the action argument, instantiation of the filter pattern expression and anchoring check with regexp/syntax (with embedded positive/negative oracle examples), must-pass-through of the backup copy",
        "text": "Structural necessary conditions: from runCheck no function that builds a state-changing request or writes a layout is reachable once call sites behind `action != check` are removed, and the action is passed down unchanged; every regexp.Compile reachable from filterList takes a pattern that, instantiated with sample filters and parsed, is anchored at both ends in every alternative, and both lists are read; the backup ImageCopy has the target as source, and from the backup-configured edge the overwriting copy is reachable only through it.",
        "note": "the before/after comparison of registries, platform resolution itself, tag movement between runs and template expansion are not decided.",
        "design": "DESIGN.md §3 C18",
    },
    "C20": {
        "technique": "path-expression decomposition into leaves with a whitelist in scheme/ocidir and pkg/archive and a remote-content taint classification elsewhere; must-pass-through of digest Validate() keyed by access path (followed into enclosing functions of closures)",
        "text": "Path construction, decided for every input because it is the shape of the expressions: every os.* path in scheme/ocidir and pkg/archive = layout/caller directory ⊕ constants ⊕ listing/temp names ⊕ parts of a digest validated (or computed) on every path to the call ⊕ Clean(\"/\"+x); no os.Symlink/os.Link in pkg/archive; elsewhere no annotation value, tar header field, reference tag/digest or unvalidated digest part reaches an os.* path or the archive.Extract directory without the rooted Clean, and a cleaned name that is altered afterwards is rejected; every caller of tarOCILayoutDescPath has validated the digest on every path.",
        "note": "links already present in the output directory, unusual file systems and a store to a validated digest field between validation and use are not decided.",
        "design": "DESIGN.md §3 C20",
    },
    "C02": {
        "technique": "mutation-to-resync reachability per setter of the seven manifest implementations, same-value check of raw body / digest / size at each resync, mismatch-edge reachability in the constructors, option audit of manifest.New on the fetch paths, cache aliasing audit",
        "text": "Structural necessary conditions: after any store into the embedded content struct (and on every success return of a Set* method) raw body and descriptor are re-synchronised; each resync stores json.Marshal output as raw body and derives digest and size from that same value; fromCommon/fromOrig recompute the digest with FromBytes, run verifyMT before every success return and return no manifest from the digest-mismatch edge; MarshalJSON returns the stored raw body; the registry put sends m.MarshalJSON(), the layout put writes m.RawBody() under m.GetDescriptor(); the scheme get paths build the result with manifest.New(WithRef(caller's ref), headers/raw, index descriptor). Known finding D13: the manifest cache shares mutable objects with callers.",
        "note": "JSON re-marshal fidelity, parse-back equality, and edits made by callers through slices returned by getters are not decided.",
        "design": "DESIGN.md §3 C02",
    },
    "C03": {
        "technique": "getter/consumer audit of the five graph traversals, data-flow from getter results into the goroutines' copy calls, AST check of early success returns, extraction and comparison of media-type case tables, dominance checks of the waiter protocol, in-place-filter lint",
        "text": "Structural necessary conditions: copy, layout GC mark, export, import and mod consult GetManifestList, GetConfig and GetLayers; in the copy each result is the descriptor handed to imageCopyOpt/imageCopyBlob inside a goroutine, and ReferrerList/TagList are consulted; the only early `return nil` is under the digest-equality test; completions carry the child's error, nested copies go by digest with the child flag and tagged copies without it, a failed BlobGet/BlobPut never reaches `return nil`; the first copier stores its error before close(done) and forgets a failed entry under the lock; copy, import and export agree on the manifest media types; no filter builds its result in param[:0].",
        "note": "that the target really holds the closure for every graph, pairing, pre-existing state and interleaving, the external-URL policy and registry features are not decided.",
        "design": "DESIGN.md §3 C03",
    },
    "C09": {
        "technique": "getter and media-type table cross-check with the copy, dominance of the already-written test over every archive write, value-origin of entry name and fetched content, reachability from the archive-scan error edge, value-origin of RepoTags",
        "text": "Structural necessary conditions: export and import consult the same getters and media-type tables as the copy; in the export walk the already-written test dominates every write and its hit edge reaches none, the header writer refuses duplicates; entry name, ManifestGet(WithManifestDesc) and BlobGet use the same descriptor parameter and the blob byte count is compared with its size; every ManifestPut of the OCI import is inside a function appended to the finish list, the list is run from its last entry down and is unreachable from the error edge of the archive scan; the Docker manifest is pushed on the success edge of the second pass; RepoTags is CommonName() of a reference that went through SetTag on every path.",
        "note": "the archive state machine over entry orders and links (seeded change C09-1 not detected), compression, Docker-format layer re-compression and round-trip equality are not decided.",
        "design": "DESIGN.md §3 C09",
    },
    "C11": {
        "technique": "who-may-call audit of credential writers, value-origin of handler-table keys and of the outgoing request's header map, access-path identity of the host entry inside an attempt, dominating guards for the http scheme, backward taint from slog arguments to secret fields with masking recognised by must-pass-through",
        "text": "Structural necessary conditions: Authorization / SetBasicAuth / password and refresh_token form fields are written only in internal/auth and token requests go to the handler's realm; the per-host handler tables are indexed by exactly URL.Host (or the caller's host string); in an attempt URL host, auth handler and HTTP client come from the same host entry, and the request's header map is created inside the attempt; \"http\" is stored only under TLS == TLSDisabled; the redirect hook calls UpdateRequest on the redirected request and bounds the chain; none of ~1900 slog arguments is derived from a password/token field or a generated Authorization value, credential structs are logged only with their secret fields masked on every path, request headers only as the censored clone. Known finding D12: a 401 from a redirect target or DirectURL host is answered with the registry's credentials.",
        "note": "non-interference over all topologies and challenge sequences, Location downgrades and credential helpers are not decided.",
        "design": "DESIGN.md §3 C11",
    },
    "C15": {
        "technique": "constant folding of the package-level pattern parts (P9) and structural inspection of the parsed patterns with regexp/syntax (anchors, per-group alphabets, repeat bounds), field write audit of the Set* methods, extraction and comparison of scheme case tables, order check of the Docker Hub normalisation",
        "text": "Bounds on the accepted language, which hold for every input string: all four folded patterns are anchored at both ends in every alternative; the repository group ⊆ [a-z0-9._/-], tag groups are 1..128 characters of [A-Za-z0-9_.-] starting with [A-Za-z0-9_], digest groups end in ≥32 hex digits, the layout path group has no ':' or '@', the scheme group is one or more lower-case letters; New/NewHost take the scheme from a submatch of that anchored pattern; SetTag/SetDigest/AddDigest write only Tag, Digest and Reference = CommonName() afterwards; the Hub aliases are rewritten before the library/ prefix is decided; accepted schemes are compared with the printer, the comparison functions and the client's scheme table (known finding D14: ocifile).",
        "note": "round trip and rejection over the whole language and host name parsing in config/host.go are not decided.",
        "design": "DESIGN.md §3 C15",
    },
    "C16": {
        "technique": "extraction of the normaliser's switch statements as a finite table and exhaustive evaluation of that table over its own constants plus one unknown value per field; dominance check that the comparator's platform is normalised before it is stored",
        "text": "The normal-form sentence of the property and shape conditions of the selection are decided: the alias table extracted from (*Platform).normalize maps every documented alias to its canonical value; normalising twice equals normalising once for all 12167 tuples over the table's constants and an unknown value per field (unknown values are only compared, never rewritten, so this covers all strings); every architecture case of the table is accepted by the arch-only parser; NewCompare stores the host platform only after normalize() ran on it.",
        "note": "NOT decided: that the chosen entry is runnable, that an exact match wins, that the preference is a strict order (values of Compatible/Better over a cross product). These clauses are not applicable to static analysis without copying the functions; of order independence only the necessary shape (whole list scanned, consistent best-so-far) is decided. Seeded change C16-3 (lossy cache key) is not detected.",
        "design": "DESIGN.md §3 C16",
    },
    "C04": {
        "technique": "statement-level path counting over go/cfg (sends per goroutine path, receives/decrements per barrier iteration, must-pass-through to the manifest write) plus SSA value-origin checks of completion values and recursive-call arguments",
        "text": "Ordering core, decided for every schedule and fault because it is the shape of the CFG: each goroutine of the copy traversal is counted before it starts and sends exactly one completion on every path after its last client call; every iteration path of the barrier loop is one receive + one decrement (the early non-blocking loop balances receives and decrements, with its flag tracked); every path to the ManifestPut passes the barrier exit and the nil edge of the received error; no spawn after the barrier, nothing mutating after the write; nested manifests go by digest with the child flag, tags without it; a failed source read / target write in BlobCopy never reaches `return nil`; the shared seen-entry is completed with the copy's own error.",
        "note": "what registries do with accepted requests, cancellation timing inside third-party code, and finalFn retries (after the top-level write by design) are not decided.",
        "design": "DESIGN.md §3 C04",
    },
    "C06": {
        "technique": "must-hold lockset dataflow with the `locked bool` idiom summarised per constant argument, AST lint for delete-while-ranging-forward (with an embedded positive example), SSA value-origin and loop-exit classification",
        "text": "Structural necessary conditions of the tag map: every access to mutex-guarded layout state and every index read/write helper runs with the layout mutex held, helpers that run under the caller's lock never release or re-take it, each index read-modify-write function holds the lock from read to write; no forward range loop shrinks the slice it ranges over in the tag/referrer table packages; the registry tag-delete fallback deletes the digest of the placeholder it pushed (built by manifest.New, carrying time.Now()), only after the push succeeded; the tag listing loop exits only on limit / error / no next link and appends every page.",
        "note": "agreement with a reference map over all histories, indexSet pruning semantics, foreign ref.name forms and registry-side semantics are not decided (seeded changes C06-1 cache key and C06-2 lookup order are not detected, see DESIGN.md).",
        "design": "DESIGN.md §3 C06",
    },
    "C07": {
        "technique": "who-may-write audit of scheme/ocidir over resolved callees, value-origin of file handles and rename sources, dominance + error-edge guards (go/ssa)",
        "text": "Write discipline that holds at every crash point because it is the set of system calls the code can issue: in scheme/ocidir only MkdirAll, CreateTemp, writes to a CreateTemp handle, Rename from that temp file's name and Remove exist (no Create/WriteFile/OpenFile-for-write/Truncate); each Rename is dominated by the write and Close of its temp file and runs only on their nil-error edges; manifest file renamed before the index update (unreachable from the rename's error edge); on delete the index is rewritten before the file is removed; the sweep only removes <layout>/blobs/<entry>/<entry>.",
        "note": "fsync/power loss, layouts written by other tools, file contents (C02/C05) and externally damaged indexes are not decided.",
        "design": "DESIGN.md §3 C07",
    },
    "C08": {
        "technique": "typestate pairing of GCLock/defer GCUnlock on go/ssa, dominating-guard and lockset checks of the sweep, control-dependence test of the mark recursion, value-origin of mark-set keys",
        "text": "Structural necessary conditions: ImageCopy registers `defer GCUnlock(same locker, same ref)` after GCLock before any return or the copy, and the traversal is reachable only past the lock (or the not-a-GCLocker edge); every removal in Close is dominated by the 'modified' and 'lock count zero' edges and runs under the layout mutex; bookkeeping entries are only dropped behind the lock-count-zero edge and the count only moves by +1 in GCLock / -1 (when positive) in GCUnlock; only functions that rename/remove/rewrite the index mark the layout dirty; the mark phase consults GetManifestList/GetConfig/GetLayers, stores each digest in the mark set, and its recursion is not control-dependent on an entry's media type; the referrers index is pushed as a tagged non-child manifest.",
        "note": "reachability for every concrete graph, writers other than ImageCopy racing with Close, and eventual removal of unreachable content are not decided.",
        "design": "DESIGN.md §3 C08",
    },
    "C10": {
        "technique": "must-hold lockset over scheme/reg and scheme/ocidir, cache-call audit with value-origin of keys and values, dominating guards / control dependence for invalidation, reachability of success returns without re-serialisation",
        "text": "Structural necessary conditions: each function that reads the fallback referrers tag and then writes or deletes it holds one client mutex at the read and at every following write with no unlock in between; every cache access of the registry scheme keys by a Ref.SetDigest-normalised reference; a list fetched with caller filters is cached only behind `ArtifactType == \"\"`; a subject-bearing put invalidates the subject's cached list before the fallback update and independent of the response header; delete invalidates before any request; layout referrer helpers run only under the layout mutex; Add never appends behind the 'digest already present' edge; Add/Delete reach no success return without SetOrig; Delete reports not-found; the API pager appends every page and exits only on the page request's error/next-link result.",
        "note": "equality with a reference multimap over all histories and schedules, the registry's own referrers API and cross-process races are not decided; a correct locking idiom other than a sync.Mutex field of the client is reported as unrecognised.",
        "design": "DESIGN.md §3 C10",
    },
    "C17": {
        "technique": "must-hold lockset dataflow over the generic queue bodies (lock identity by generic origin), critical-section reachability (no insertion from a Lock without the admission comparison), path rules for the cancelled waiter and the hand-off index, resource typestate (P8) at every acquisition site of the module",
        "text": "Structural necessary conditions that hold for every interleaving because they are lock/ownership shape: all accesses to the queue's mutable lists run with the queue mutex held, no method leaks, splits or re-takes it; every insertion is in the same critical section as an admission comparison; a queued waiter returns only with the release function, after deleting itself from both waiting lists, or after release(&e); release closes the waiter's channel under the lock and moves the same index to the active list and out of both waiting lists; AcquireMulti has exactly one blocking Acquire, try-acquires the rest and releases the blocking slot on the retry path; every one of the acquisition sites outside the package releases on every path (call, defer, ownership transfer), and the slot stored in an HTTP response is released before next() acquires another.",
        "note": "lost wake-ups / livelock over all interleavings, the index arithmetic of AcquireMulti's clean-up and fairness are not decided.",
        "design": "DESIGN.md §3 C17",
    },
    "C12": {
        "technique": "custom SSA/CFG checks: request-literal field audit, natural-loop bound classification, retry-counter write discipline, abstract evaluation of the mirror comparator over all atom orderings, must-pass-through release check",
        "text": "Structural necessary conditions, exhaustive over the enumerated sites: every state-changing reghttp.Req literal carries NoMirrors; mirrors are consulted only under !NoMirrors; every loop in reghttp/auth/scheme-reg that can repeat an HTTP request is range-bounded, counter-bounded on every cycle, a listed pager, or the chunk loop with a limit test after every retry increment; the attempt counter is decremented only by Seek; the mirror comparator is evaluated abstractly for every consistent ordering of its atoms against the documented order (known finding D1: priority ascending); the stored throttle slot is released before re-acquisition. Static shape holds for every fault sequence and configuration, which is what the tests cannot enumerate.",
        "note": "back-off durations, Retry-After, the status classification table, correctness of results after absorbed faults and mirror contents are not decided.",
        "design": "DESIGN.md §3 C12",
    },
    "C19": {
        "technique": "reference-graph reachability with guard-deleted edges (dominating dry-run branch), field write audit, loop-exit and defer/recover shape checks on go/ssa",
        "text": "From every Lua binding (all functions of the sandbox package with the LGFunction shape) no function that builds a state-changing registry request or calls a file-system mutator inside scheme/ocidir is reachable in the module's reference graph once call sites dominated by the not-dry-run edge of the sandbox's flag are removed: this covers every script, because a script can only call bindings. Also: flag writers, the --dry-run option reaching every sandbox.New, panic recovery in RunScript, script loops with no error-dependent exit, deferred release of the shared throttle.",
        "note": "read-only bindings behaving exactly as in a normal run, Lua's own os/io libraries and image.exportTar's local tar file are not decided; Close is treated as inert on the strength of C08.R3.",
        "design": "DESIGN.md §3 C19",
    },
}

NOT_CLAIMED = {}

# second-round additions (rules written after the independent seeded changes of round two and the defects D15, D16)
ADD = {
    "C02": ("; constructor descriptor = stored raw body (digest argument and size store), JSON-encoder sink audit followed through `any` helpers",
            " Also: in fromCommon/fromOrig the digest is FromBytes of the stored raw body and the size is set to its length on every path to a success return (D15, fixed); no manifest value reaches encoding/json in the packages that store or send content."),
    "C03": ("; value audit of the descriptor given to the target's existence test; GC-lock protocol shared with C08",
            " Also: BlobCopy asks the target whether the blob exists with a descriptor whose URLs were cleared; the copy holds the layout GC lock and the lock cannot be lost (C08.R1/R2)."),
    "C04": ("; layout write order and GC-lock bookkeeping shared with C07.R3 / C08.R2",
            " Also: in the layout scheme the index entry is written after the manifest file is in place (also through helpers), and the GC bookkeeping entry of a running copy is never overwritten or dropped."),
    "C06": ("; dominance of the exact lookup pass over loose matches; nested-writer reachability between an index read and its write-back",
            " Also: a suffix match of a ref.name annotation is tried only after a complete exact pass; nothing that rewrites the index runs between readIndex and the writeIndex of that copy."),
    "C07": ("; remove-before-rename reachability",
            " Also: no os.Remove of a rename's destination precedes the rename; rename/remove helpers are followed."),
    "C08": ("; map-overwrite audit of the GC bookkeeping; control dependence of the sweep's removal",
            " Also: a bookkeeping entry is stored only on the miss edge of a lookup in the same map (or stored back); the sweep's removal does not depend on a test of the shape of the entry's name."),
    "C09": ("; typestate of the import scan (rescan flag after a registration made during the scan; one read per archive entry)",
            " Also: code reachable from a handler that registers another handler sets the rescan flag on every success path; an entry's stream is consumed by at most one reader per handler (D16, fixed)."),
    "C10": ("; nested-writer reachability in the layout index read-modify-write; origin audit of WithManifest arguments",
            " Also: the layout's ManifestDelete does not write back an index copy read before a nested index update; a manifest passed with WithManifest never comes from ManifestHead."),
    "C11": ("; loose-match lint against constant host names",
            " Also: no suffix/prefix/substring/case-folding match against a constant host name in the credential and host packages."),
    "C12": ("; marker-pager exit audit outside the registry scheme",
            " Also: a client-side loop that pages a listing by marker leaves on an empty page and when the page's last entry equals the marker sent."),
    "C13": ("; placement audit of RegClient.Close relative to dagPut",
            " Also: no RegClient.Close (layout GC) can run in package mod before dagPut has written the manifests."),
    "C14": ("; dominating known-length guard of every Content-Length comparison",
            " Also: a response's ContentLength is compared with an expected size only where it is known (not -1)."),
    "C15": ("; rewriting-call audit of the serialiser",
            " Also: CommonName passes no field of the reference through a string-rewriting function."),
    "C17": ("; panic-aware release typestate; throttle identity audit (map delete / overwrite / multiple store sites)",
            " Also: no Lua raise or panic is reachable while a slot is held and no release is deferred; a throttle is never deleted from its map, replaced, or stored at more than one site."),
    "C18": ("; memoisation soundness (by-value parameters of the cached value vs. of the key, with call-site coverage)",
            " Also: every store into a package-level cache of cmd/regsync is keyed by everything the cached value is computed from."),
    "C19": ("; failure-edge reachability of the shared context's cancel function",
            " Also: the runner does not cancel the context shared by the scripts on one script's failure."),
}
for _pid, (_t, _x) in ADD.items():
    CLAIMED[_pid]["technique"] += _t
    CLAIMED[_pid]["text"] += _x

# third set of additions (rules written after re-reading the seeded changes that were still missed, and D17)
ADD3 = {
    "C01": ("; compositional path enumeration through error-returning helpers; consumer audit of the verifying chain (per-path return resolution with identity guards)",
            " Also: helpers of Read on an EOF path are expanded into their ways; any other function that drains the verifying chain runs the same comparisons on every path on which the read did not fail and returns their result unless it is identical to io.EOF or nil."),
    "C05": ("; must-reach of the fall-back (reachability with rewind-only branches removed)",
            " Also: after a failed single PUT no return is reachable without the chunked upload except over a branch that concerns only whether the source can be rewound (or a cancelled context)."),
    "C09": ("; constant-index audit of the Docker manifest list next to its selection loop",
            " Also: in the function that selects a manifest.json entry by name, no other read of the list is indexed by a constant."),
    "C15": ("; re-parse reachability from the parser's error edge",
            " Also: for every call of a reference parser in the module, no parser call with the same argument is reachable from its error edge (a refused input is not re-read under the host grammar)."),
    "C16": ("; loop-exit audit and phi-web shape check of the selection fold",
            " Also: the loop that folds Better over the list is left only at exhaustion; the previous platform is the loop-carried value, updated to the candidate exactly on Better's true edge together with the kept entry."),
    "C17": ("; search-key audit of the cancel path",
            " Also: a cancelled waiter looks itself up by the address of its own wake-up channel, never by the address of a possibly zero-size entry (D17, fixed)."),
    "C18": ("; ownership audit of the filtered listing (value origins through package helpers); raw-page audit of the catalog pager",
            " Also: the in-place allow/deny filter is only handed listings nobody else holds; the pager's exit tests and marker are computed from the page the registry sent, not from the filter's result."),
}
for _pid, (_t, _x) in ADD3.items():
    CLAIMED[_pid]["technique"] += _t
    CLAIMED[_pid]["text"] += _x

# fourth set of additions (rules written after the third, fully independent round of seeded changes, and D18)
ADD4 = {
    "C01": ("; consumer lint (bounded readers of blob streams), field-use audit of Descriptor.Data", " Also: no blob reader is consumed up to a byte count (io.CopyN and the like); inline data reaches module code only through GetData."),
    "C02": ("; origin audit of raw bodies; re-construction reachability from the constructor's error edge", " Also: the bytes given to manifest.WithRaw are never the result of a rewriting function; a body the constructor refused is not handed to it again."),
    "C03": ("; must-pass-through of a file read in the layout's head requests; struct-key completeness of the scheme's caches", " Also: the layout answers a head request only after looking at the blob file; what was learned about one repository's referrers API is keyed by that repository."),
    "C04": ("; media-type table agreement shared with C03.R5", " Also: index entries of manifest type are copied as manifests (the copy's media-type switch agrees with import and export)."),
    "C05": ("; static type of the upload source", " Also: the reader BlobCopy hands to BlobPut can seek."),
    "C06": ("; control dependence of index removals through predicate closures; guard audit of tag comparisons", " Also: an index entry is removed only under an exact comparison of its own annotation (or digest) with what was asked for, and never matched by an empty tag; every origin of the digest the tag-delete fallback deletes is the placeholder."),
    "C07": ("; path-element count of temp directory vs. rename destination", " Also: a temp file is created in the directory of its final name."),
    "C08": ("; dominance of the mark store over the load of an index entry; temp-directory rule shared with C07.R5", " Also: an index entry is marked before the collector tries to load it; temp files are created where the sweep looks."),
    "C09": ("; mark-before-load shared with C08.R8", " Also: a layout target keeps blob-typed index entries across Close."),
    "C10": ("; struct-key completeness of the feature cache", " Also: every access to a struct-keyed cache of scheme/reg builds its key with the same fields."),
    "C11": ("; who-may-store audit of the TLS-disabled constant", " Also: no code outside package config stores TLSDisabled into a host entry."),
    "C12": ("; field audit of the blob download request", " Also: the blob GET declares the expected length so that a truncated body is resumed."),
    "C13": ("; empty-tag guard audit shared with C06.R9", " Also: a push by digest into a layout cannot replace the untagged entries of other images."),
    "C14": ("; dominance of the target head request over the source fetch; exact-before-loose lookup shared with C06.R6", " Also: the target is asked before the source manifest is fetched, on every path; the layout resolves the target tag exactly."),
    "C16": ("; forward slice of every parsed platform", " Also: a platform parsed from a request is handed on, not dropped."),
    "C17": ("; reachability of nested requests under an open response (reference graph + per-function must-pass-through of Close)", " Also: no function of scheme/reg sends another request while a response it obtained is still open (D18, fixed)."),
    "C20": ("; who-may-store audit of Ref.Path", " Also: a layout directory is only ever put into a reference by the reference parsers."),
}
for _pid, (_t, _x) in ADD4.items():
    CLAIMED[_pid]["technique"] += _t
    CLAIMED[_pid]["text"] += _x

# rules added during the fourth round of seeded changes
ADD5 = {
    "C01": ("; error-origin audit of the limit reader; guard audit of deferred stores to a named error result", " Also: the limit reader reports an end of stream only when its source did (or behind the limit test); a deferred clean-up does not replace the error the body returned."),
    "C02": ("; origin audit of what the manifest cache stores; store order of reference digest and header digest in the constructor", " Also: the manifest cache never stores a manifest rebuilt from a struct; a digest pinned in the reference is not overridden by a response header."),
    "C03": ("; select/receive dominance of the 'nothing to do' answers of the in-flight table; cache and paging rules shared with C10.R2 / C06.R4", " Also: a caller that finds content in flight is told it is there only after the first copier has finished; filtered referrer listings are not cached under the subject; the tag listing ends only on the limit, an error, or a page without a next link."),
    "C04": ("; guard audit of every completion received in a loop (sticky barrier error); context-independence of a loader whose failure the layout GC ignores (shared with C08.R9)", " Also: the barrier never replaces a collected failure by a later completion unless that completion is itself a failure (D19, fixed); a Close with a cancelled context after an interrupted copy cannot sweep what other tags need."),
    "C05": ("; fresh-temp-file rule shared with C07.R1; must-not-reach of the host-drop flag from the failure edge of the HTTP round trip (shared with C12.R10)", " Also: the layout upload writes into a CreateTemp file; a connection reset in the middle of an upload session is retried on the registry, not answered by giving the only host up."),
    "C06": ("; sweep-under-lock rule shared with C08.R2", " Also: the layout's sweep runs under the mutex that every writer of the index takes."),
    "C07": ("; must-not-reach of a failing return after the index decode; in-flight wait shared with C03.R4", " Also: while the index updater starts a new index when the old one cannot be read, the reader never refuses an index it has parsed; a manifest is not published into a layout while a blob it shares with another image of the copy is in flight."),
    "C08": ("; context-independence of a loader whose failure the mark phase passes over", " Also: nothing the ignored loader calls consults the context."),
    "C10": ("; fresh-storage rule for list filters shared with C03.R6; origin audit of the listing the client's ReferrerList returns", " Also: a filtered query builds its answer in fresh storage; every ReferrerList call of the client is answered by a scheme call made by that very call."),
    "C11": ("; value audit of the descriptor given to the target's existence test shared with C03.R7", " Also: the target's login is not offered to the hosts named in a layer's external URLs by the existence test of BlobCopy."),
    "C12": ("; rewindable upload source shared with C05.R6; must-not-reach of the host-drop flag from the failure edge of the HTTP round trip", " Also: a transport failure is retried on the same host after the backoff."),
    "C13": ("; origin audit of the compressor's input against the digest tee", " Also: where the diff-id digester is fed by a tee and the stream goes on to the compressor, nothing sits between the two."),
    "C14": ("; syntax audit for link-refusing file calls in the layout scheme (expected count zero, positive example in the self-test)", " Also: the layout's existence tests follow links as its reads do."),
    "C16": ("; data-dependence audit of values a function literal remembers across its calls", " Also: a value remembered by a per-image step (the rebase bases) does not depend on the image it was computed for."),
    "C17": ("; sync.Map variant of the throttle-table rule", " Also: a sync.Map of queues is only filled with LoadOrStore."),
    "C18": ("; exact-before-loose lookup shared with C06.R6", " Also: the layout resolves a tag exactly before any loose match."),
    "C19": ("; who-may-store audit of the dry-run flag's field; unchecked-assertion audit on Lua values in the runner", " Also: nothing but the flag binding writes the dry-run option; the runner never asserts the type of a script-controlled value without the comma-ok form."),
}
for _pid, (_t, _x) in ADD5.items():
    CLAIMED[_pid]["technique"] += _t
    CLAIMED[_pid]["text"] += _x

# rules added during the fifth round of seeded changes
ADD6 = {
    "C01": ("; matcher audit of archive walks (errors.Is against io.EOF without an own digest)", " Also: a consumer of a verified stream does not take an error that merely wraps io.EOF for the end of an archive."),
    "C02": ("; fresh-storage rule for list filters shared with C03.R6", " Also: list filters do not write into the parsed list of the manifest they were given."),
    "C03": ("; exact-before-loose lookup shared with C06.R6; origin audit of the client's head answers shared with C09.R12", " Also: the layout resolves the tag just written exactly; a blob is skipped only on the target's own answer."),
    "C04": ("; cache-key completeness shared with C10.R2", " Also: 'already at the target' is answered per repository."),
    "C05": ("; who-may-close audit of the blob reader's source", " Also: reading a blob to its end does not close the source the upload has to rewind."),
    "C06": ("; comparison audit of the page merge", " Also: pages of a tag listing are merged without an order assumption."),
    "C07": ("; GC bookkeeping rule shared with C08.R2", " Also: the lock count of a running copy is never dropped."),
    "C08": ("; lockset requirement of the referrer helpers shared with C10.R3", " Also: the fallback index that keeps pushed referrers reachable is updated under one hold of the layout mutex."),
    "C09": ("; origin audit of the client's BlobHead / ManifestHead answers", " Also: existence at the target is asked from the target, never answered from the descriptor."),
    "C11": ("; origin audit of logged request headers", " Also: request headers reach the log only as the censored copy."),
    "C12": ("; must-not-return between an IgnoreErr probe and its fallback; who-may-close audit shared with C05.R10", " Also: a single-shot probe falls back on every kind of failure."),
    "C17": ("; origin audit of the contexts handed to requests and acquires", " Also: no request or acquire of the schemes runs under a context that was not derived from the caller's."),
    "C18": ("; control dependence of per-entry goroutines on the parallel setting", " Also: entries run in configuration order unless parallelism was configured."),
    "C19": ("; sweep-only-when-modified rule shared with C08.R2", " Also: closing a layout the run did not write to removes nothing (the close binding is not gated)."),
}
for _pid, (_t, _x) in ADD6.items():
    CLAIMED[_pid]["technique"] += _t
    CLAIMED[_pid]["text"] += _x

# rules added in the session of 2026-09-29 (sixth round)
ADD7 = {
    "C01": ("; use audit of the error result of every copy out of a blob reader", " Also: the error that ends a blob's stream is looked at by every consumer."),
    "C02": ("; origin audit of buffer views handed to WithRaw; source audit of the schema1 decode", " Also: a raw body is not a view into a buffer that outlives the call; signed schema1 fields are decoded from the digested payload."),
    "C03": ("; must-follow between the manifest copy and the blob copy of an unknown index entry; waiter result rule", " Also: an entry of unknown type is tried as a manifest first; a waiter reports the first copier's failure."),
    "C04": ("; waiter result rule shared with C03.R4; operand audit of ref.EqualRepository / EqualRegistry", " Also: a child that waited for shared content learns whether that copy failed; 'same repository' is decided on the references' own fields."),
    "C06": ("; origin audit of the index reader's returns shared with C14.R9; control dependence of the index setter on the lookup", " Also: the index is read from the file on every call; a push always sets its index entry."),
    "C07": ("; who-may-remove audit over the reference graph shared with C08.R11; mark recursion rule shared with C08.R4", " Also: content is removed only by an explicit delete or by the sweep; the collector walks every entry whatever the mark set already holds."),
    "C08": ("; who-may-remove audit over the reference graph; sibling agreement of the bookkeeping map keys; control dependence of the mark recursion on mark-set membership; directory-class agreement between os.CreateTemp sites and the sweep", " Also: only BlobDelete, ManifestDelete and the sweep remove files; every access to the GC bookkeeping builds its key the same way; the walk does not skip entries that are merely marked; every directory a temp file is made in is swept (found D27)."),
    "C09": ("; close-error typestate of the archive writers the export creates; must-fail reachability of the Docker name lookup", " Also: the error of finishing the tar stream and the compressed stream reaches the caller of the export (found D20); a Docker import whose name lookup finds nothing fails (found D26)."),
    "C10": ("; second-invalidation clause of the cache coherence rule (a cache delete/set dominated by the lock, deferred or behind every rewrite of the tag)", " Also: a referrer-aware delete drops the cached list again after the fallback tag was rewritten (found D25)."),
    "C19": ("; option audit of the Lua state's creation (SkipOpenLibs, no os/io library opened)", " Also: the interpreter's own os / io functions are not available to scripts (violated on the unchanged tree: known finding D28)."),
    "C11": ("; backward slice from stores into secret fields (and from documents decoded into structs with secret fields) to the text they come from, met with the logger arguments", " Also: the string, map or response body a password or token is parsed out of does not reach the log (found D23)."),
    "C12": ("; argument-identity audit of self-recursive request functions; guard/derivation audit of stores to the per-host release time", " Also: no operation restarts itself by recursion with unchanged arguments; a host's release time is only replaced with a look at what it holds."),
    "C14": ("; origin audit of the index reader's returns; operand audit of ref.EqualRepository shared with C04.R16", " Also: the layout index is decoded by the call that returns it, never remembered; 'nothing to transfer' is decided on the references' own fields."),
    "C16": ("; origin audit of the list handed to the ranked search; dominance of normalize() over comparisons with the local platform in Parse", " Also: the platform lookup ranks the whole index; short notations are completed after normalisation."),
    "C17": ("; response typestate over every reghttp Do of the registry scheme; lockset state at the layout throttle's blocking acquires; who-may-clear audit of the field the blob reader closes", " Also: no function of the registry scheme returns with an open response (found D24); no waiting for a layout slot with the layout mutex held; the source a blob reader has to close is never dropped without closing it."),
    "C18": ("; must-not-reach from the failure edges of the backup copy and of the target lookup to the overwriting copy; must-not-return between backup and overwrite; page-merge rule shared with C06.R11", " Also: a failed backup stops the overwrite and a failed target lookup is not taken for an absent tag (both violated on the unchanged tree: known findings D21, D22); nothing decides 'no overwrite' after the backup was written; tag pages are merged without an order assumption."),
}
for _pid, (_t, _x) in ADD7.items():
    CLAIMED[_pid]["technique"] += _t
    CLAIMED[_pid]["text"] += _x

def main():
    props = [json.loads(l)["id"] for l in open("/verif/properties.jsonl")]
    checks = []
    for pid in props:
        c = CLAIMED.get(pid)
        if not c:
            continue
        checks.append({
            "property_id": pid,
            "quick_cmd": f"./bin/rcverif check -property {pid} -tier quick",
            "thorough_cmd": f"./bin/rcverif check -property {pid} -tier thorough",
            "evidence_file": f"/verif/evidence/{pid}.json",
            "replay_cmd_template": "./bin/rcverif explain {path}",
            "engine": "rcverif",
            "level_claimed": {"category": "other", "text": c["text"], "design_ref": c["design"]},
            "level_note": TRUST + c["note"],
            "technique": "static analysis: " + c["technique"],
        })
    na = []
    for pid in props:
        if pid not in CLAIMED:
            na.append({"property_id": pid, "reason": NOT_CLAIMED.get(pid, "check not built yet (planned, DESIGN.md §3); no claim is made until the rules exist")})
    m = {
        "version": 1,
        "setup_cmd": f"cd /verif && {ENV} go build -o bin/rcverif ./cmd/rcverif",
        "hooks": {
            "guard": "verif",
            "enable": "no hooks: every check is a static analysis of /repo's working tree (go/packages loads it on every run); the guard name is reserved and unused",
            "baseline_off_cmd": "cd /repo && GOFLAGS=-mod=mod go test -vet=off -count=1 -timeout 25m ./...",
            "source_commits": [],
            "add_only": True,
        },
        "engines": [{
            "name": "rcverif",
            "path": "/verif/cmd/rcverif",
            "serves_properties": [c["property_id"] for c in checks],
            "kind_free_text": "repository-specific static analyser (go/packages + go/types + go/ssa, x/tools v0.29.0): per-property rule sets over the type-checked program; quick = linux/amd64, thorough = 5 build configurations + mutant/benign self-test applied as in-memory overlays",
        }],
        "checks": checks,
        "notes": "All checks decide structural necessary conditions of their property from /repo's current source without running it (level 'other'); what each does not decide is stated in level_note and DESIGN.md. Exit 0 = all obligations held or match known_findings.json (KNOWN-FINDING lines); exit 1 + VIOLATION line = a violated or undecidable obligation; exit 2 = the tree does not type-check or the self-test failed (checker broken), no VIOLATION line.",
        "not_applicable": na,
    }
    json.dump(m, open("/verif/MANIFEST.json", "w"), indent=1)
    try:
        import jsonschema
        jsonschema.validate(m, json.load(open("/root/.vp/MANIFEST.schema.json")))
        print("MANIFEST.json valid;", len(checks), "checks,", len(na), "not claimed")
    except ImportError:
        print("jsonschema not available; written without validation")

main()

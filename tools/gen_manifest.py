#!/usr/bin/env python3
"""Generate /verif/MANIFEST.json from the table below (one entry per claimed property) and validate it.

Properties that are not in CLAIMED are listed under not_applicable with the reason in NOT_CLAIMED.
"""
import json, sys

ENV = "GOFLAGS=-mod=mod GOPROXY=off GOSUMDB=off GOTOOLCHAIN=local GOWORK=off"

TRUST = ("Trusted: go/types, go/ssa, go/packages (x/tools v0.29.0), the Go front end; the module-internal reference graph "
         "(static callees, closures, function values, interface calls resolved over module-defined types) is adequate because the analysed "
         "packages use no reflect calls on functions, no unsafe/cgo/linkname; third-party and standard-library functions behave as documented. "
         "Dead code is analysed like live code. Not a proof of the behavioural statement: ")

CLAIMED = {
    "C04": {
        "technique": "statement-level path counting over go/cfg (sends per goroutine path, receives/decrements per barrier iteration, must-pass-through to the manifest write) plus SSA value-origin checks of completion values and recursive-call arguments",
        "text": "Ordering core, decided for every schedule and fault because it is the shape of the CFG: each goroutine of the copy traversal is counted before it starts and sends exactly one completion on every path after its last client call; every iteration path of the barrier loop is one receive + one decrement (the early non-blocking loop balances receives and decrements, with its flag tracked); every path to the ManifestPut passes the barrier exit and the nil edge of the received error; no spawn after the barrier, nothing mutating after the write; nested manifests go by digest with the child flag, tags without it; a failed source read / target write in BlobCopy never reaches `return nil`; the shared seen-entry is completed with the copy's own error.",
        "note": "what registries do with accepted requests, cancellation timing inside third-party code, and finalFn retries (after the top-level write by design) are not decided.",
        "design": "DESIGN.md §3 C04",
    },
    "C06": {
        "technique": "must-hold lockset dataflow with the `locked bool` idiom summarised per constant argument, AST lint for delete-while-ranging-forward (with an embedded positive example), SSA value-origin and loop-exit classification",
        "text": "Structural necessary conditions of the tag map: every access to mutex-guarded layout state and every index read/write helper runs with the layout mutex held, helpers that run under the caller's lock never release or re-take it, each index read-modify-write function holds the lock from read to write; no forward range loop shrinks the slice it ranges over in the tag/referrer table packages; the registry tag-delete fallback deletes the digest of the placeholder it pushed (built by manifest.New, carrying time.Now()), only after the push succeeded; the tag listing loop exits only on limit / error / no next link and appends every page.",
        "note": "agreement with a reference map over all histories, indexSet pruning semantics, foreign ref.name forms and registry-side semantics are not decided (seeded changes C06-1 cache key and C06-2 lookup order are not detected, see DESIGN.md).",
        "design": "DESIGN.md §3 C06",
    },
    "C07": {
        "technique": "who-may-write audit of scheme/ocidir over resolved callees, value-origin of file handles and rename sources, dominance + error-edge guards (go/ssa)",
        "text": "Write discipline that holds at every crash point because it is the set of system calls the code can issue: in scheme/ocidir only MkdirAll, CreateTemp, writes to a CreateTemp handle, Rename from that temp file's name and Remove exist (no Create/WriteFile/OpenFile-for-write/Truncate); each Rename is dominated by the write and Close of its temp file and runs only on their nil-error edges; manifest file renamed before the index update (unreachable from the rename's error edge); on delete the index is rewritten before the file is removed; the sweep only removes <layout>/blobs/<entry>/<entry>.",
        "note": "fsync/power loss, layouts written by other tools, file contents (C02/C05) and externally damaged indexes are not decided.",
        "design": "DESIGN.md §3 C07",
    },
    "C08": {
        "technique": "typestate pairing of GCLock/defer GCUnlock on go/ssa, dominating-guard and lockset checks of the sweep, control-dependence test of the mark recursion, value-origin of mark-set keys",
        "text": "Structural necessary conditions: ImageCopy registers `defer GCUnlock(same locker, same ref)` after GCLock before any return or the copy, and the traversal is reachable only past the lock (or the not-a-GCLocker edge); every removal in Close is dominated by the 'modified' and 'lock count zero' edges and runs under the layout mutex; bookkeeping entries are only dropped behind the lock-count-zero edge and the count only moves by +1 in GCLock / -1 (when positive) in GCUnlock; only functions that rename/remove/rewrite the index mark the layout dirty; the mark phase consults GetManifestList/GetConfig/GetLayers, stores each digest in the mark set, and its recursion is not control-dependent on an entry's media type; the referrers index is pushed as a tagged non-child manifest.",
        "note": "reachability for every concrete graph, writers other than ImageCopy racing with Close, and eventual removal of unreachable content are not decided.",
        "design": "DESIGN.md §3 C08",
    },
    "C10": {
        "technique": "must-hold lockset over scheme/reg and scheme/ocidir, cache-call audit with value-origin of keys and values, dominating guards / control dependence for invalidation, reachability of success returns without re-serialisation",
        "text": "Structural necessary conditions: each function that reads the fallback referrers tag and then writes or deletes it holds one client mutex at the read and at every following write with no unlock in between; every cache access of the registry scheme keys by a Ref.SetDigest-normalised reference; a list fetched with caller filters is cached only behind `ArtifactType == \"\"`; a subject-bearing put invalidates the subject's cached list before the fallback update and independent of the response header; delete invalidates before any request; layout referrer helpers run only under the layout mutex; Add never appends behind the 'digest already present' edge; Add/Delete reach no success return without SetOrig; Delete reports not-found; the API pager appends every page and exits only on the page request's error/next-link result.",
        "note": "equality with a reference multimap over all histories and schedules, the registry's own referrers API and cross-process races are not decided; a correct locking idiom other than a sync.Mutex field of the client is reported as unrecognised.",
        "design": "DESIGN.md §3 C10",
    },
    "C17": {
        "technique": "must-hold lockset dataflow over the generic queue bodies (lock identity by generic origin), critical-section reachability (no insertion from a Lock without the admission comparison), path rules for the cancelled waiter and the hand-off index, resource typestate (P8) at every acquisition site of the module",
        "text": "Structural necessary conditions that hold for every interleaving because they are lock/ownership shape: all accesses to the queue's mutable lists run with the queue mutex held, no method leaks, splits or re-takes it; every insertion is in the same critical section as an admission comparison; a queued waiter returns only with the release function, after deleting itself from both waiting lists, or after release(&e); release closes the waiter's channel under the lock and moves the same index to the active list and out of both waiting lists; AcquireMulti has exactly one blocking Acquire, try-acquires the rest and releases the blocking slot on the retry path; every one of the acquisition sites outside the package releases on every path (call, defer, ownership transfer), and the slot stored in an HTTP response is released before next() acquires another.",
        "note": "lost wake-ups / livelock over all interleavings, the index arithmetic of AcquireMulti's clean-up and fairness are not decided.",
        "design": "DESIGN.md §3 C17",
    },
    "C12": {
        "technique": "custom SSA/CFG checks: request-literal field audit, natural-loop bound classification, retry-counter write discipline, abstract evaluation of the mirror comparator over all atom orderings, must-pass-through release check",
        "text": "Structural necessary conditions, exhaustive over the enumerated sites: every state-changing reghttp.Req literal carries NoMirrors; mirrors are consulted only under !NoMirrors; every loop in reghttp/auth/scheme-reg that can repeat an HTTP request is range-bounded, counter-bounded on every cycle, a listed pager, or the chunk loop with a limit test after every retry increment; the attempt counter is decremented only by Seek; the mirror comparator is evaluated abstractly for every consistent ordering of its atoms against the documented order (known finding D1: priority ascending); the stored throttle slot is released before re-acquisition. Static shape holds for every fault sequence and configuration, which is what the tests cannot enumerate.",
        "note": "back-off durations, Retry-After, the status classification table, correctness of results after absorbed faults and mirror contents are not decided.",
        "design": "DESIGN.md §3 C12",
    },
    "C19": {
        "technique": "reference-graph reachability with guard-deleted edges (dominating dry-run branch), field write audit, loop-exit and defer/recover shape checks on go/ssa",
        "text": "From every Lua binding (all functions of the sandbox package with the LGFunction shape) no function that builds a state-changing registry request or calls a file-system mutator inside scheme/ocidir is reachable in the module's reference graph once call sites dominated by the not-dry-run edge of the sandbox's flag are removed: this covers every script, because a script can only call bindings. Also: flag writers, the --dry-run option reaching every sandbox.New, panic recovery in RunScript, script loops with no error-dependent exit, deferred release of the shared throttle.",
        "note": "read-only bindings behaving exactly as in a normal run, Lua's own os/io libraries and image.exportTar's local tar file are not decided; Close is treated as inert on the strength of C08.R3.",
        "design": "DESIGN.md §3 C19",
    },
}

NOT_CLAIMED = {}

def main():
    props = [json.loads(l)["id"] for l in open("/verif/properties.jsonl")]
    checks = []
    for pid in props:
        c = CLAIMED.get(pid)
        if not c:
            continue
        checks.append({
            "property_id": pid,
            "quick_cmd": f"./bin/rcverif check -property {pid} -tier quick",
            "thorough_cmd": f"./bin/rcverif check -property {pid} -tier thorough",
            "evidence_file": f"/verif/evidence/{pid}.json",
            "replay_cmd_template": "./bin/rcverif explain {path}",
            "engine": "rcverif",
            "level_claimed": {"category": "other", "text": c["text"], "design_ref": c["design"]},
            "level_note": TRUST + c["note"],
            "technique": "static analysis: " + c["technique"],
        })
    na = []
    for pid in props:
        if pid not in CLAIMED:
            na.append({"property_id": pid, "reason": NOT_CLAIMED.get(pid, "check not built yet (planned, DESIGN.md §3); no claim is made until the rules exist")})
    m = {
        "version": 1,
        "setup_cmd": f"cd /verif && {ENV} go build -o bin/rcverif ./cmd/rcverif",
        "hooks": {
            "guard": "verif",
            "enable": "no hooks: every check is a static analysis of /repo's working tree (go/packages loads it on every run); the guard name is reserved and unused",
            "baseline_off_cmd": "cd /repo && GOFLAGS=-mod=mod go test -vet=off -count=1 -timeout 25m ./...",
            "source_commits": [],
            "add_only": True,
        },
        "engines": [{
            "name": "rcverif",
            "path": "/verif/cmd/rcverif",
            "serves_properties": [c["property_id"] for c in checks],
            "kind_free_text": "repository-specific static analyser (go/packages + go/types + go/ssa, x/tools v0.29.0): per-property rule sets over the type-checked program; quick = linux/amd64, thorough = 5 build configurations + mutant/benign self-test applied as in-memory overlays",
        }],
        "checks": checks,
        "notes": "All checks decide structural necessary conditions of their property from /repo's current source without running it (level 'other'); what each does not decide is stated in level_note and DESIGN.md. Exit 0 = all obligations held or match known_findings.json (KNOWN-FINDING lines); exit 1 + VIOLATION line = a violated or undecidable obligation; exit 2 = the tree does not type-check or the self-test failed (checker broken), no VIOLATION line.",
        "not_applicable": na,
    }
    json.dump(m, open("/verif/MANIFEST.json", "w"), indent=1)
    try:
        import jsonschema
        jsonschema.validate(m, json.load(open("/root/.vp/MANIFEST.schema.json")))
        print("MANIFEST.json valid;", len(checks), "checks,", len(na), "not claimed")
    except ImportError:
        print("jsonschema not available; written without validation")

main()

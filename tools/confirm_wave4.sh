#!/bin/sh
# usage: confirm_wave4.sh <ID>...   confirms /tmp/seed/<ID>/out4/{1,2} into /verif/seeded/<ID>-{7,8}
for id in "$@"; do
  for n in 1 2; do
    d=$((n+6))
    if [ -f /tmp/seed/$id/out4/$n/patch.diff ] && [ ! -d /verif/seeded/$id-$d ]; then
      python3 /verif/tools/confirm_seed.py $id $n out4 $d > /tmp/confirm_${id}_$d.log 2>&1
    fi
  done
done

#!/bin/sh
# usage: confirm_wave6.sh <ID>...   confirms /tmp/seed/<ID>/out6/{1,2} into /verif/seeded/<ID>-{10,11}
for id in "$@"; do
  for n in 1 2; do
    d=$((n+9))
    if [ -f /tmp/seed/$id/out6/$n/patch.diff ] && [ -f /tmp/seed/$id/out6/$n/meta.json ] && [ -f /tmp/seed/$id/out6/$n/demo_path.txt ] && [ ! -d /verif/seeded/$id-$d ] && [ ! -f /tmp/confirm_${id}_$d.log ]; then
      python3 /verif/tools/confirm_seed.py $id $n out6 $d > /tmp/confirm_${id}_$d.log 2>&1
    fi
  done
done

#!/bin/sh
# usage: confirm_wave.sh <ID>...   confirms /tmp/seed/<ID>/out2/{1,2} into /verif/seeded/<ID>-{3,4}
for id in "$@"; do
  for n in 1 2; do
    d=$((n+2))
    if [ -f /tmp/seed/$id/out2/$n/patch.diff ] && [ ! -d /verif/seeded/$id-$d ]; then
      python3 /verif/tools/confirm_seed.py $id $n out2 $d > /tmp/confirm_${id}_$d.log 2>&1
    fi
  done
done

#!/usr/bin/env python3
"""Confirm a seeded breaking change delivered by a sub-agent and, if it is valid, keep it under
/verif/seeded/<ID>-<n>/ (patch.diff, demonstration, meta.json).

usage: confirm_seed.py <ID> <n> [outdir [destn]]   (reads /tmp/seed/<ID>/<outdir>/<n>, default outdir=out;
                                                     stores as /verif/seeded/<ID>-<destn>, default destn=n)

Confirms, in a scratch worktree of /repo outside /repo and /verif that is removed afterwards:
  1. the demonstration passes on the unmodified tree,
  2. the patch applies and the tree still builds,
  3. the demonstration fails with the patch,
  4. the unedited full suite still passes with the patch (only the network test ExampleNew fails).
"""
import json, os, shutil, subprocess, sys, time

ENV = dict(os.environ, GOFLAGS="-mod=mod", GOPROXY="off", GOSUMDB="off", GOTOOLCHAIN="local")

def run(cmd, cwd, timeout=1500):
    p = subprocess.run(cmd, cwd=cwd, env=ENV, shell=isinstance(cmd, str), capture_output=True, text=True, timeout=timeout)
    return p.returncode, (p.stdout + p.stderr)

def main():
    pid, n = sys.argv[1], sys.argv[2]
    outdir = sys.argv[3] if len(sys.argv) > 3 else "out"
    destn = sys.argv[4] if len(sys.argv) > 4 else n
    src = f"/tmp/seed/{pid}/{outdir}/{n}"
    meta = json.load(open(f"{src}/meta.json"))
    paths = [l.strip() for l in open(f"{src}/demo_path.txt") if l.strip()]
    demos = sorted(f for f in os.listdir(src) if f not in ("patch.diff", "meta.json", "demo_path.txt"))
    if len(paths) != len(demos):
        # try to match by basename
        by = {os.path.basename(p): p for p in paths}
        if all(d in by for d in demos):
            paths = [by[d] for d in demos]
        else:
            print("demo file / path mismatch", demos, paths); sys.exit(2)
    else:
        by = {os.path.basename(p): p for p in paths}
        if all(d in by for d in demos):
            paths = [by[d] for d in demos]
    wt = f"/tmp/confirm/{pid}-{destn}"
    shutil.rmtree(wt, ignore_errors=True)
    subprocess.run(["git", "-C", "/repo", "worktree", "prune"], check=False)
    os.makedirs("/tmp/confirm", exist_ok=True)
    subprocess.run(["git", "-C", "/repo", "worktree", "add", "--detach", "-q", wt, "HEAD"], check=True)
    res = {"property": pid, "n": n}
    try:
        head = subprocess.run(["git", "-C", wt, "rev-parse", "--short", "HEAD"], capture_output=True, text=True).stdout.strip()
        res["repo_commit"] = head
        for d, p in zip(demos, paths):
            os.makedirs(os.path.dirname(os.path.join(wt, p)) or wt, exist_ok=True)
            shutil.copy(os.path.join(src, d), os.path.join(wt, p))
        cmd = meta["demo_cmd"]
        rc0, out0 = run(cmd, wt)
        res["demo_without_change"] = "PASS" if rc0 == 0 else "FAIL"
        rca, outa = run(["git", "apply", f"{src}/patch.diff"], wt)
        res["patch_applies"] = rca == 0
        rcb, outb = run("go build ./...", wt)
        res["builds"] = rcb == 0
        rc1, out1 = run(cmd, wt)
        res["demo_with_change"] = "PASS" if rc1 == 0 else "FAIL"
        res["demo_with_change_tail"] = out1[-1500:]
        for p in paths:
            os.remove(os.path.join(wt, p))
        rc2, out2 = run("go test -vet=off -count=1 -timeout 25m ./... 2>&1 | grep -E '^(--- FAIL|FAIL|ok|panic)'", wt)
        fails = [l for l in out2.splitlines() if l.startswith("--- FAIL") or l.startswith("panic")]
        failpk = [l for l in out2.splitlines() if l.startswith("FAIL\t")]
        res["suite_failures"] = fails
        res["suite_failed_packages"] = failpk
        res["suite_ok"] = fails == ["--- FAIL: ExampleNew (%s)" % fails[0].split("(")[-1].rstrip(")")] if fails else False
        res["suite_ok"] = len(fails) == 1 and fails[0].startswith("--- FAIL: ExampleNew") and len(failpk) == 1
        ok = (res["demo_without_change"] == "PASS" and res["patch_applies"] and res["builds"]
              and res["demo_with_change"] == "FAIL" and res["suite_ok"])
        res["confirmed"] = ok
        if not ok:
            res["out_without"] = out0[-1500:]
            res["apply_out"] = outa[-500:]
            res["build_out"] = outb[-1500:]
    finally:
        subprocess.run(["git", "-C", "/repo", "worktree", "remove", "--force", wt], check=False)
        shutil.rmtree(wt, ignore_errors=True)
    print(json.dumps(res, indent=1))
    if res.get("confirmed"):
        dst = f"/verif/seeded/{pid}-{destn}"
        shutil.rmtree(dst, ignore_errors=True)
        os.makedirs(dst)
        shutil.copy(f"{src}/patch.diff", dst)
        for d in demos:
            shutil.copy(os.path.join(src, d), dst)
        shutil.copy(f"{src}/demo_path.txt", dst)
        m = {
            "property": pid,
            "breaks": meta.get("breaks") or meta.get("summary"),
            "needs": meta.get("needs"),
            "files_changed": meta.get("files_changed"),
            "demo_files": dict(zip(demos, paths)),
            "demo_cmd": meta.get("demo_cmd"),
            "confirmed": {
                "repo_commit": head,
                "ran": ["demonstration on the clean worktree", "git apply patch.diff", "go build ./...", "demonstration with the change",
                        "go test -vet=off -count=1 ./... with the change (demonstration removed)"],
                "demo_without_change": res["demo_without_change"],
                "demo_with_change": res["demo_with_change"],
                "suite_with_change": "all packages ok except the network test ExampleNew",
                "date": time.strftime("%Y-%m-%d"),
            },
            "origin": "written by an independent sub-agent that saw only the property text and a scratch worktree",
        }
        json.dump(m, open(f"{dst}/meta.json", "w"), indent=1)
    sys.exit(0 if res.get("confirmed") else 1)

main()

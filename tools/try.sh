#!/bin/sh
# usage: tools/try.sh <property> <patch>   -- run the property's rules on /repo with the patch overlaid
/verif/bin/rcverif mutant -property "$1" -patch "$2" | python3 -c "
import json,sys
d=json.load(sys.stdin)
if d.get('skipped') or d.get('load_error'): print('skipped:',d.get('skipped'),'loaderr:',d.get('load_error'))
print(len(d['violations']),'report(s)')
for v in d['violations']: print(' ',v['status'],v['rule'],v['pos'],'|',v['func'],'|',v['construct'],'\n     ',v['detail'][:400])
"

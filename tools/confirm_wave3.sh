#!/bin/sh
# usage: confirm_wave3.sh <ID>...   confirms /tmp/seed/<ID>/out3/{1,2} into /verif/seeded/<ID>-{5,6}
for id in "$@"; do
  for n in 1 2; do
    d=$((n+4))
    if [ -f /tmp/seed/$id/out3/$n/patch.diff ] && [ ! -d /verif/seeded/$id-$d ]; then
      python3 /verif/tools/confirm_seed.py $id $n out3 $d > /tmp/confirm_${id}_$d.log 2>&1
    fi
  done
done

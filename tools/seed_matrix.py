#!/usr/bin/env python3
"""Run every seeded change (as an in-memory overlay) against the check of its own property and print
which rules report it. usage: seed_matrix.py [--all]  (--all: against every property)"""
import json, os, subprocess, sys, glob
from concurrent.futures import ThreadPoolExecutor
ALL = "--all" in sys.argv
BIN = os.environ.get("RCVERIF", "/verif/bin/rcverif")
props = subprocess.run([BIN,"list"],capture_output=True,text=True).stdout.split()
seeds = sorted(d for d in glob.glob("/verif/seeded/C*-*") if os.path.isdir(d))
def run(job):
    seed, prop = job
    out = subprocess.run([BIN,"mutant","-property",prop,"-patch",seed+"/patch.diff"],capture_output=True,text=True)
    try:
        d = json.loads(out.stdout)
    except Exception:
        return seed, prop, ["ERROR "+out.stderr[-200:]]
    if d.get("skipped") or d.get("load_error"):
        return seed, prop, ["SKIP/LOADERR "+str(d.get("skipped") or d.get("load_error"))[:120]]
    return seed, prop, sorted(set(v["rule"]+" "+v["func"].split(".")[-1]+" | "+v["construct"] for v in d["violations"]))
jobs = []
for s in seeds:
    own = os.path.basename(s).split("-")[0]
    for p in (props if ALL else [own]):
        jobs.append((s,p))
res = {}
with ThreadPoolExecutor(6) as ex:
    for seed, prop, v in ex.map(run, jobs):
        res.setdefault(os.path.basename(seed), {})[prop] = v
for s in sorted(res):
    own = s.split("-")[0]
    mark = "DETECTED" if res[s].get(own) else "missed"
    print(f"{s}: {mark}")
    for p, v in sorted(res[s].items()):
        for x in v:
            print(f"    [{p}] {x}")
json.dump(res, open(os.environ.get("MATRIX_OUT", "/tmp/seed_matrix.json"),"w"), indent=1)

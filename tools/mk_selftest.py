#!/usr/bin/env python3
"""Self-test case definitions (mutants and benign variants), written as Python for easy quoting.
Validates that every anchor snippet occurs exactly once in /repo and writes selftest/<ID>.json.
Cases defined in the hand-written JSON files (C12, C19) are left alone unless listed here."""
import json, os, sys

REPO = "/repo"
CASES = {}

def case(pid, cid, kind, desc, edits=None, patch=None, expect=None):
    c = {"id": cid, "kind": kind, "desc": desc}
    if edits:
        c["edits"] = [{"file": f, "old": o, "new": n} for (f, o, n) in edits]
    if patch:
        c["patch"] = patch
    if expect:
        c["expect"] = [dict(zip(("rule", "func", "construct"), e)) for e in expect]
    CASES.setdefault(pid, []).append(c)

# ---------------------------------------------------------------- C04
case("C04", "C04-seed1", "mutant", "seeded: seenCB deferred before BlobCopy (argument evaluated early: waiters told success)",
     patch="seeded/C04-1/patch.diff", expect=[("C04.R6", "imageCopyBlob", "seen-entry")])
case("C04", "C04-seed2", "mutant", "seeded: BlobCopy returns nil when the upload was cancelled",
     patch="seeded/C04-2/patch.diff", expect=[("C04.R6", "BlobCopy", "BlobPut")])
case("C04", "C04-m-count", "mutant", "config goroutine started without waitCount++",
     edits=[("image.go", "\t\t\twaitCount++\n\t\t\tgo func() {\n\t\t\t\trc.slog.Info(\"Copy config\",", "\t\t\tgo func() {\n\t\t\t\trc.slog.Info(\"Copy config\",")],
     expect=[("C04.R1", "imageCopyOpt", "counted")])
case("C04", "C04-m-nosend", "mutant", "layer goroutine returns without sending when cancelled",
     edits=[("image.go", "\t\t\t\terr := rc.imageCopyBlob(ctx, refSrc, refTgt, layerSrc, opt, bOpt...)\n", "\t\t\t\terr := rc.imageCopyBlob(ctx, refSrc, refTgt, layerSrc, opt, bOpt...)\n\t\t\t\tif errors.Is(err, context.Canceled) {\n\t\t\t\t\treturn\n\t\t\t\t}\n")],
     expect=[("C04.R1", "imageCopyOpt", "completes once")])
case("C04", "C04-m-double", "mutant", "barrier decrements twice per receive on the error path",
     edits=[("image.go", "\t\t\t} else {\n\t\t\t\t<-waitCh\n\t\t\t}\n\t\t}\n\t\twaitCount--\n\t}\n\tif err != nil {\n\t\treturn err\n\t}\n", "\t\t\t} else {\n\t\t\t\t<-waitCh\n\t\t\t\twaitCount--\n\t\t\t}\n\t\t}\n\t\twaitCount--\n\t}\n\tif err != nil {\n\t\treturn err\n\t}\n")],
     expect=[("C04.R2", "imageCopyOpt", "barrier")])
case("C04", "C04-m-errtest", "mutant", "error test after the barrier removed: a failed child no longer stops the manifest write",
     edits=[("image.go", "\t\twaitCount--\n\t}\n\tif err != nil {\n\t\treturn err\n\t}\n\n\t// push manifest\n", "\t\twaitCount--\n\t}\n\n\t// push manifest\n")],
     expect=[("C04.R3", "imageCopyOpt", "error test")])
case("C04", "C04-m-childflag", "mutant", "seeded C03-2 shape: digest-tag copies inherit the child flag",
     edits=[("image.go", "\t\t\t\t\terr := rc.imageCopyOpt(ctx, refTagSrc, refTagTgt, descriptor.Descriptor{}, false, parentsNew, opt)", "\t\t\t\t\terr := rc.imageCopyOpt(ctx, refTagSrc, refTagTgt, descriptor.Descriptor{}, child, parentsNew, opt)")],
     expect=[("C04.R4", "imageCopyOpt", "by tag")])
case("C04", "C04-m-bytag", "mutant", "index entries copied to the target tag instead of by digest",
     edits=[("image.go", "\t\t\t\tentryTgt := refTgt.SetDigest(dEntry.Digest.String())\n", "\t\t\t\tentryTgt := refTgt\n")],
     expect=[("C04.R4", "imageCopyOpt", "recursive copy")])
case("C04", "C04-b-namedlit", "benign", "config goroutine literal bound to a local variable first",
     edits=[("image.go", "\t\t\twaitCount++\n\t\t\tgo func() {\n\t\t\t\trc.slog.Info(\"Copy config\",", "\t\t\tcopyConfig := func() {\n\t\t\t\trc.slog.Info(\"Copy config\","),
            ("image.go", "\t\t\t\t\t\tslog.String(\"digest\", cd.Digest.String()),\n\t\t\t\t\t\tslog.String(\"err\", err.Error()))\n\t\t\t\t}\n\t\t\t\twaitCh <- err\n\t\t\t}()\n", "\t\t\t\t\t\tslog.String(\"digest\", cd.Digest.String()),\n\t\t\t\t\t\tslog.String(\"err\", err.Error()))\n\t\t\t\t}\n\t\t\t\twaitCh <- err\n\t\t\t}\n\t\t\twaitCount++\n\t\t\tgo copyConfig()\n")])

# ---------------------------------------------------------------- C06
case("C06", "C06-D10", "mutant", "historical defect D10 re-introduced: tagDelete removes while ranging forwards",
     patch="selftest/regress/D10.diff", expect=[("C06.R2", "tagDelete", "delete from")])
case("C06", "C06-m-unlock", "mutant", "ManifestDelete releases the lock between the index read and the index write",
     edits=[("scheme/ocidir/manifest.go", "\t// push manifest back out\n\tif changed {\n\t\terr = o.writeIndex(r, index, true)", "\t// push manifest back out\n\to.mu.Unlock()\n\to.mu.Lock()\n\tif changed {\n\t\terr = o.writeIndex(r, index, true)")],
     expect=[("C06.R1", "ManifestDelete", "")])
case("C06", "C06-m-nolock", "mutant", "TagDelete without taking the layout mutex",
     edits=[("scheme/ocidir/tag.go", "func (o *OCIDir) TagDelete(ctx context.Context, r ref.Ref) error {\n\to.mu.Lock()\n\tdefer o.mu.Unlock()\n", "func (o *OCIDir) TagDelete(ctx context.Context, r ref.Ref) error {\n")],
     expect=[("C06.R1", "TagDelete", "")])
case("C06", "C06-m-relock", "mutant", "tagDelete reads the index through the locking variant while the lock is held (self-deadlock)",
     edits=[("scheme/ocidir/tag.go", "\tindex, err := o.readIndex(r, true)\n\tif err != nil {\n\t\treturn fmt.Errorf(\"failed to read index: %w\", err)\n\t}\n\tchanged := false", "\tindex, err := o.readIndex(r, false)\n\tif err != nil {\n\t\treturn fmt.Errorf(\"failed to read index: %w\", err)\n\t}\n\tchanged := false")],
     expect=[("C06.R1", "tagDelete", "")])
case("C06", "C06-m-live", "mutant", "tag-delete fallback deletes the digest of the live manifest instead of the placeholder",
     edits=[("scheme/reg/tag.go", "\tr = r.AddDigest(tempManifest.GetDescriptor().Digest.String())", "\tr = r.AddDigest(curManifest.GetDescriptor().Digest.String())")],
     expect=[("C06.R3", "TagDelete", "placeholder digest")])
case("C06", "C06-m-droppage", "mutant", "tag listing stops after the first extra page",
     edits=[("scheme/reg/tag.go", "\t\t\terr = tl.Append(tlAdd)\n\t\t\tif err != nil {\n\t\t\t\treturn tl, fmt.Errorf(\"tag list failed to append entries: %w\", err)\n\t\t\t}\n", "\t\t\terr = tl.Append(tlAdd)\n\t\t\tif err != nil {\n\t\t\t\treturn tl, fmt.Errorf(\"tag list failed to append entries: %w\", err)\n\t\t\t}\n\t\t\tif len(tlAdd.Tags) < 2 {\n\t\t\t\tbreak\n\t\t\t}\n")],
     expect=[("C06.R4", "TagList", "loop exit")])
case("C06", "C06-b-explicit-unlock", "benign", "TagDelete with explicit unlock on its single path instead of defer",
     edits=[("scheme/ocidir/tag.go", "func (o *OCIDir) TagDelete(ctx context.Context, r ref.Ref) error {\n\to.mu.Lock()\n\tdefer o.mu.Unlock()\n\treturn o.tagDelete(ctx, r)\n", "func (o *OCIDir) TagDelete(ctx context.Context, r ref.Ref) error {\n\to.mu.Lock()\n\terr := o.tagDelete(ctx, r)\n\to.mu.Unlock()\n\treturn err\n")])

case("C06", "C06-seed2", "mutant", "seeded: indexGet merges the exact and the suffix lookup into one pass",
     patch="seeded/C06-2/patch.diff", expect=[("C06.R6", "indexGet", "loose ref.name match")])
case("C06", "C06-b-exacthelper", "benign", "indexGet's exact pass moved into a helper",
     edits=[("scheme/ocidir/ocidir.go", "\t\tfor _, im := range index.Manifests {\n\t\t\tif name, ok := im.Annotations[aOCIRefName]; ok && name == r.Tag {\n\t\t\t\treturn im, nil\n\t\t\t}\n\t\t}\n\t\t// fall back",
             "\t\tif im, ok := indexFindExact(index, r.Tag); ok {\n\t\t\treturn im, nil\n\t\t}\n\t\t// fall back"),
            ("scheme/ocidir/ocidir.go", "func indexSet(index *v1.Index, r ref.Ref, d descriptor.Descriptor) error {",
             "func indexFindExact(index v1.Index, tag string) (descriptor.Descriptor, bool) {\n\tfor _, im := range index.Manifests {\n\t\tif name, ok := im.Annotations[aOCIRefName]; ok && name == tag {\n\t\t\treturn im, true\n\t\t}\n\t}\n\treturn descriptor.Descriptor{}, false\n}\n\nfunc indexSet(index *v1.Index, r ref.Ref, d descriptor.Descriptor) error {")])
case("C06", "C06-m-suffixfirst", "mutant", "indexGet tries the suffix match before the exact match",
     edits=[("scheme/ocidir/ocidir.go", "\t\tfor _, im := range index.Manifests {\n\t\t\tif name, ok := im.Annotations[aOCIRefName]; ok && name == r.Tag {\n\t\t\t\treturn im, nil\n\t\t\t}\n\t\t}\n\t\t// fall back to support full image name in annotation\n\t\tfor _, im := range index.Manifests {\n\t\t\tif name, ok := im.Annotations[aOCIRefName]; ok && strings.HasSuffix(name, \":\"+r.Tag) {\n\t\t\t\treturn im, nil\n\t\t\t}\n\t\t}\n",
             "\t\tfor _, im := range index.Manifests {\n\t\t\tif name, ok := im.Annotations[aOCIRefName]; ok && strings.HasSuffix(name, \":\"+r.Tag) {\n\t\t\t\treturn im, nil\n\t\t\t}\n\t\t}\n\t\tfor _, im := range index.Manifests {\n\t\t\tif name, ok := im.Annotations[aOCIRefName]; ok && name == r.Tag {\n\t\t\t\treturn im, nil\n\t\t\t}\n\t\t}\n")],
     expect=[("C06.R6", "indexGet", "loose ref.name match")])

# ---------------------------------------------------------------- C07
case("C07", "C07-D4", "mutant", "historical defect D4 re-introduced: oci-layout rewritten in place with os.Create",
     patch="selftest/regress/D4.diff", expect=[("C07.R1", "writeIndex", "os.Create"), ("C07.R1", "initIndex", "os.Create")])
case("C07", "C07-seed1", "mutant", "seeded: manifest written in place with os.WriteFile",
     patch="seeded/C07-1/patch.diff", expect=[("C07.R1", "manifestPut", "os.WriteFile")])
case("C07", "C07-seed2", "mutant", "seeded: manifest file removed before the index is rewritten",
     patch="seeded/C07-2/patch.diff", expect=[("C07.R3", "ManifestDelete", "remove after index")])
case("C07", "C07-m-closeerr", "mutant", "blob published although Close of the temp file failed",
     edits=[("scheme/ocidir/blob.go", "\tif errC != nil {\n\t\treturn d, errC\n\t}\n", "\t_ = errC\n")],
     expect=[("C07.R2", "BlobPut", "os.Rename")])
case("C07", "C07-m-idxfirst", "mutant", "index updated before the manifest file is renamed into place",
     edits=[("scheme/ocidir/manifest.go", "\tfile := path.Join(dir, desc.Digest.Encoded())\n\terr = os.Rename(path.Join(dir, tmpName), file)\n\tif err != nil {\n\t\treturn fmt.Errorf(\"failed to write manifest (rename tmpfile): %w\", err)\n\t}\n\n\t// verify/update index\n\terr = o.updateIndex(r, desc, config.Child, true)\n\tif err != nil {\n\t\treturn err\n\t}\n",
            "\t// verify/update index\n\terr = o.updateIndex(r, desc, config.Child, true)\n\tif err != nil {\n\t\treturn err\n\t}\n\tfile := path.Join(dir, desc.Digest.Encoded())\n\terr = os.Rename(path.Join(dir, tmpName), file)\n\tif err != nil {\n\t\treturn fmt.Errorf(\"failed to write manifest (rename tmpfile): %w\", err)\n\t}\n\n")],
     expect=[("C07.R3", "manifestPut", "index update after rename")])
case("C07", "C07-m-renameother", "mutant", "index renamed from a fixed name instead of the temp file",
     edits=[("scheme/ocidir/ocidir.go", "\terr = os.Rename(path.Join(r.Path, tmpName), indexFile)", "\t_ = tmpName\n\terr = os.Rename(path.Join(r.Path, \"index.json.new\"), indexFile)")],
     expect=[("C07.R1", "writeIndex", "os.Rename")])
case("C07", "C07-b-tmpname", "benign", "temp name taken from (*os.File).Name() instead of Stat().Name()",
     edits=[("scheme/ocidir/ocidir.go", "\tindexFile := path.Join(r.Path, \"index.json\")\n\terr = os.Rename(path.Join(r.Path, tmpName), indexFile)", "\tindexFile := path.Join(r.Path, \"index.json\")\n\t_ = tmpName\n\terr = os.Rename(tmpFile.Name(), indexFile)")])

# ---------------------------------------------------------------- C08
case("C08", "C08-seed1", "mutant", "seeded: mark phase only loads index entries whose media type is in an allow-list",
     patch="seeded/C08-1/patch.diff", expect=[("C08.R4", "closeProcManifest", "recursion")])
case("C08", "C08-seed2", "mutant", "seeded: GCUnlock drops the bookkeeping entry of an unmodified layout without checking the lock count",
     patch="seeded/C08-2/patch.diff", expect=[("C08.R2", "GCUnlock", "delete(")])
case("C08", "C08-m-nodefer", "mutant", "GC lock released right after it is taken instead of by defer",
     edits=[("image.go", "\t\ttgtGCLocker.GCLock(refTgt)\n\t\tdefer tgtGCLocker.GCUnlock(refTgt)\n", "\t\ttgtGCLocker.GCLock(refTgt)\n\t\ttgtGCLocker.GCUnlock(refTgt)\n")],
     expect=[("C08.R1", "ImageCopy", "GCLock paired")])
case("C08", "C08-m-nolocktest", "mutant", "Close sweeps although a copy holds the GC lock",
     edits=[("scheme/ocidir/close.go", "if gc, ok := o.modRefs[r.Path]; !ok || !gc.mod || gc.locks > 0 {", "if gc, ok := o.modRefs[r.Path]; !ok || !gc.mod {")],
     expect=[("C08.R2", "Close", "sweep removal")])
case("C08", "C08-m-noconfig", "mutant", "mark phase forgets the config blob",
     edits=[("scheme/ocidir/close.go", "\t\tif err == nil {\n\t\t\t(*dl)[cd.Digest.String()] = true\n\t\t}\n", "\t\t_ = cd\n\t\t_ = err\n")],
     expect=[("C08.R4", "closeProcManifest", "GetConfig")])
case("C08", "C08-m-dirtyread", "mutant", "a read (ManifestGet) marks the layout modified",
     edits=[("scheme/ocidir/manifest.go", "\to.mu.Lock()\n\tdefer o.mu.Unlock()\n\treturn o.manifestGet(ctx, r)\n", "\to.mu.Lock()\n\tdefer o.mu.Unlock()\n\to.refMod(r)\n\treturn o.manifestGet(ctx, r)\n")],
     expect=[("C08.R3", "ManifestGet", "")])
case("C08", "C08-b-sweepform", "benign", "sweep guard written as two separate tests",
     edits=[("scheme/ocidir/close.go", "\tif gc, ok := o.modRefs[r.Path]; !ok || !gc.mod || gc.locks > 0 {\n\t\t// unmodified or locked, skip gc\n\t\treturn nil\n\t}\n", "\tgc, ok := o.modRefs[r.Path]\n\tif !ok || !gc.mod {\n\t\treturn nil\n\t}\n\tif gc.locks > 0 {\n\t\treturn nil\n\t}\n")])

# ---------------------------------------------------------------- C10
case("C10", "C10-D6", "mutant", "historical defect D6 re-introduced: referrerDelete without the fallback-tag lock",
     patch="selftest/regress/D6.diff", expect=[("C10.R1", "referrerDelete", "read-modify-write")])
case("C10", "C10-seed1", "mutant", "seeded: server-filtered referrer list cached under the subject's key",
     patch="seeded/C10-1/patch.diff", expect=[("C10.R2", "ReferrerList", "Set value")])
case("C10", "C10-seed2", "mutant", "seeded: per-subject lock map with delete-on-unlock (unrecognised idiom, and broken)",
     patch="seeded/C10-2/patch.diff", expect=[("C10.R1", "referrerPut", "read-modify-write")])
case("C10", "C10-seedC06-1", "mutant", "seeded (C06-1): cache keyed by the raw reference in delete/get/head",
     patch="seeded/C06-1/patch.diff", expect=[("C10.R2", "ManifestDelete", "key")])
case("C10", "C10-m-dup", "mutant", "Add appends without checking for an existing entry",
     edits=[("types/referrer/referrer.go", "\tfor _, d := range rlM.Manifests {\n\t\tif d.Digest == mDesc.Digest {\n\t\t\treturn nil\n\t\t}\n\t}\n", "")],
     expect=[("C10.R4", "Add", "no duplicate")])
case("C10", "C10-m-nosetorig", "mutant", "Delete returns without re-serialising the index",
     edits=[("types/referrer/referrer.go", "\trl.Descriptors = rlM.Manifests\n\terr := rl.Manifest.SetOrig(rlM)\n\tif err != nil {\n\t\treturn err\n\t}\n\treturn nil\n}\n\n// IsEmpty", "\trl.Descriptors = rlM.Manifests\n\treturn nil\n}\n\n// IsEmpty")],
     expect=[("C10.R4", "Delete", "re-serialised")])
case("C10", "C10-m-inval", "mutant", "subject's cached list only invalidated when the registry did not acknowledge the subject",
     edits=[("scheme/reg/manifest.go", "\t\t\treg.cacheRL.Delete(rSubj)\n\t\t\tif mDesc.Digest.String() != resp.HTTPResponse().Header.Get(OCISubjectHeader) {\n", "\t\t\tif mDesc.Digest.String() != resp.HTTPResponse().Header.Get(OCISubjectHeader) {\n\t\t\t\treg.cacheRL.Delete(rSubj)\n")],
     expect=[("C10.R2", "ManifestPut", "invalidates")])
case("C10", "C10-b-explicit", "benign", "referrerDelete cache invalidation through a local variable",
     edits=[("scheme/reg/referrer.go", "\trSubject := r.SetDigest(subject.Digest.String())\n\treg.cacheRL.Delete(rSubject)\n", "\trSubject := r.SetDigest(subject.Digest.String())\n\tkey := rSubject\n\treg.cacheRL.Delete(key)\n")])

# ---------------------------------------------------------------- C17
case("C17", "C17-D7", "mutant", "historical defect D7 re-introduced: next re-entered with a slot still stored in the response",
     patch="selftest/regress/D7.diff", expect=[("C17.R6", "next", "Acquire after release")])
case("C17", "C17-seed1", "mutant", "seeded: cancelled waiter that was handed a slot only removes itself from the active list",
     patch="seeded/C17-1/patch.diff", expect=[("C17.R3", "Acquire", "return after enqueue")])
case("C17", "C17-seed2", "mutant", "seeded: AcquireMulti clean-up no longer releases the blocking slot",
     patch="seeded/C17-2/patch.diff", expect=[("C17.R5", "AcquireMulti", "blocking slot")])
case("C17", "C17-m-early-unlock", "mutant", "Acquire releases the mutex between the admission check and the enqueue",
     edits=[("internal/pqueue/pqueue.go", "\t// limit reached, add to queue and wait\n\tw := make(chan struct{}, 1)\n", "\t// limit reached, add to queue and wait\n\tq.mu.Unlock()\n\tw := make(chan struct{}, 1)\n\tq.mu.Lock()\n")],
     expect=[("C17.R2", "Acquire", "check-then-act")])
case("C17", "C17-m-nolock-release", "mutant", "release without taking the mutex",
     edits=[("internal/pqueue/pqueue.go", "func (q *Queue[T]) release(prev *T) {\n\tq.mu.Lock()\n\tdefer q.mu.Unlock()\n", "func (q *Queue[T]) release(prev *T) {\n")],
     expect=[("C17.R1", "release", "")])
case("C17", "C17-m-leak-caller", "mutant", "ocidir BlobPut releases its slot only on the success path",
     edits=[("scheme/ocidir/blob.go", "\tdefer done()\n\n\terr = o.initIndex(r, false)\n\tif err != nil {\n\t\treturn d, err\n\t}\n", "\terr = o.initIndex(r, false)\n\tif err != nil {\n\t\treturn d, err\n\t}\n\tdefer done()\n")],
     expect=[("C17.R6", "BlobPut", "Acquire")])
case("C17", "C17-m-handoff-index", "mutant", "release wakes waiter i but admits waiter 0",
     edits=[("internal/pqueue/pqueue.go", "\tq.active = append(q.active, q.queued[i])\n", "\tq.active = append(q.active, q.queued[0])\n")],
     expect=[("C17.R4", "release", "hand-off")])
case("C17", "C17-b-tryacquire-explicit", "benign", "TryAcquire with explicit unlocks instead of defer",
     edits=[("internal/pqueue/pqueue.go", "\tq.mu.Lock()\n\tdefer q.mu.Unlock()\n\tif len(q.active)+len(q.queued) < q.max {\n\t\tq.active = append(q.active, &e)\n\t\treturn q.releaseFn(&e), nil\n\t}\n\treturn nil, nil\n", "\tq.mu.Lock()\n\tif len(q.active)+len(q.queued) < q.max {\n\t\tq.active = append(q.active, &e)\n\t\tq.mu.Unlock()\n\t\treturn q.releaseFn(&e), nil\n\t}\n\tq.mu.Unlock()\n\treturn nil, nil\n")])

# ---------------------------------------------------------------- C01
case("C01", "C01-seed1", "mutant", "seeded: EOF checks only run once (verified flag), Seek does not clear it",
     patch="seeded/C01-1/patch.diff", expect=[("C01.R2", "Read", "size test"), ("C01.R4", "Seek", "verified")])
case("C01", "C01-seed2", "mutant", "seeded: external-URL reader built without WithDesc",
     patch="seeded/C01-2/patch.diff", expect=[("C01.R1", "blobGetExternal", "NewReader")])
case("C01", "C01-m-cleaneof", "mutant", "digest mismatch keeps the original EOF",
     edits=[("types/blob/reader.go", "\t\t} else if r.desc.Digest != r.digester.Digest() {\n\t\t\terr = fmt.Errorf(\"%w [expected %s, calculated %s]: %w\", errs.ErrDigestMismatch, r.desc.Digest.String(), r.digester.Digest().String(), err)\n\t\t}", "\t\t} else if r.desc.Digest != r.digester.Digest() {\n\t\t\tr.desc.Digest = r.digester.Digest()\n\t\t}")],
     expect=[("C01.R2", "Read", "mismatch returns")])
case("C01", "C01-m-seekdigester", "mutant", "Seek keeps the old digester",
     edits=[("types/blob/reader.go", "\tr.digester = r.desc.DigestAlgo().Digester()\n\tr.reader = io.TeeReader(rdr, r.digester.Hash())\n\tr.readBytes = 0\n", "\tr.reader = io.TeeReader(rdr, r.digester.Hash())\n\tr.readBytes = 0\n")],
     expect=[("C01.R4", "Seek", "digester")])
case("C01", "C01-m-limit", "mutant", "LimitRead returns the underlying error when the limit is exceeded after the read",
     edits=[("internal/limitread/limitread.go", "\tlr.Limit -= int64(n)\n\tif lr.Limit < 0 {\n\t\treturn n, fmt.Errorf(\"read limit exceeded%.0w\", errs.ErrSizeLimitExceeded)\n\t}\n", "\tlr.Limit -= int64(n)\n\tif lr.Limit < 0 {\n\t\treturn n, err\n\t}\n")],
     expect=[("C01.R3", "Read", "limit")])
case("C01", "C01-m-getdata", "mutant", "GetData skips the digest comparison",
     edits=[("types/descriptor/descriptor.go", "\tif d.Digest != d.DigestAlgo().FromBytes(d.Data) {\n\t\treturn nil, errs.ErrParsingFailed\n\t}\n", "")],
     expect=[("C01.R5", "GetData", "digest compared")])
case("C01", "C01-m-contentrange", "mutant", "resume accepted without Content-Range",
     edits=[("internal/reghttp/http.go", "\t\t\tif httpReq.Header.Get(\"Range\") != \"\" && resp.resp.Header.Get(\"Content-Range\") == \"\" {\n\t\t\t\tdropHost = true\n\t\t\t\t_ = resp.resp.Body.Close()\n\t\t\t\treturn fmt.Errorf(\"range request not supported by server\")\n\t\t\t}\n", "")],
     expect=[("C01.R6", "next", "Content-Range")])
case("C01", "C01-b-readorder", "benign", "size comparisons in Read swapped",
     edits=[("types/blob/reader.go", "\t\t} else if r.readBytes < r.desc.Size {\n\t\t\terr = fmt.Errorf(\"%w [expected %d, received %d]: %w\", errs.ErrShortRead, r.desc.Size, r.readBytes, err)\n\t\t} else if r.readBytes > r.desc.Size {\n\t\t\terr = fmt.Errorf(\"%w [expected %d, received %d]: %w\", errs.ErrSizeLimitExceeded, r.desc.Size, r.readBytes, err)\n\t\t}",
            "\t\t} else if r.readBytes > r.desc.Size {\n\t\t\terr = fmt.Errorf(\"%w [expected %d, received %d]: %w\", errs.ErrSizeLimitExceeded, r.desc.Size, r.readBytes, err)\n\t\t} else if r.readBytes < r.desc.Size {\n\t\t\terr = fmt.Errorf(\"%w [expected %d, received %d]: %w\", errs.ErrShortRead, r.desc.Size, r.readBytes, err)\n\t\t}")])

# ---------------------------------------------------------------- C05
case("C05", "C05-seed2", "mutant", "seeded: layout BlobPut wraps the stream in io.LimitReader",
     patch="seeded/C05-2/patch.diff", expect=[("C05.R1", "BlobPut", "whole stream")])
case("C05", "C05-m-renamefirst", "mutant", "layout BlobPut accepts a digest mismatch",
     edits=[("scheme/ocidir/blob.go", "\t} else if d.Digest != digester.Digest() {\n\t\treturn d, fmt.Errorf(\"unexpected digest, expected %s, computed %s\", d.Digest, digester.Digest())\n\t}\n", "\t} else if d.Digest != digester.Digest() {\n\t\to.slog.Debug(\"digest mismatch\")\n\t}\n")],
     expect=[("C05.R1", "BlobPut", "digest comparison")])
case("C05", "C05-m-chunksize", "mutant", "chunked upload commits although the size differs",
     edits=[("scheme/reg/blob.go", "\tif d.Size != 0 && chunkStart != d.Size {\n\t\treturn d, fmt.Errorf(\"blob content size does not match descriptor, expected %d, received %d%.0w\", d.Size, chunkStart, errs.ErrMismatch)\n\t}\n", "")],
     expect=[("C05.R2", "blobPutUploadChunked", "size comparison")])
case("C05", "C05-m-norewind", "mutant", "chunked fall-back although the rewind did not reach offset 0",
     edits=[("scheme/reg/blob.go", "\t\tif errR != nil || offset != 0 {\n", "\t\tif errR != nil || offset < 0 {\n")],
     expect=[("C05.R3", "BlobPut", "failed rewind")])
case("C05", "C05-m-nocancel", "mutant", "failed chunked upload leaves the session open",
     edits=[("scheme/reg/blob.go", "\td, err = reg.blobPutUploadChunked(ctx, r, d, putURL, rdr)\n\tif err != nil {\n\t\t_ = reg.blobUploadCancel(ctx, r, putURL)\n\t}\n\treturn d, err\n", "\td, err = reg.blobPutUploadChunked(ctx, r, d, putURL, rdr)\n\treturn d, err\n")],
     expect=[("C05.R3", "BlobPut", "cancels")])
case("C05", "C05-b-bufio", "benign", "layout BlobPut reads the teed stream through a bufio.Reader",
     edits=[("scheme/ocidir/blob.go", "\ti, err := io.Copy(tmpFile, rdr)\n", "\ti, err := io.Copy(tmpFile, bufio.NewReader(rdr))\n"),
            ("scheme/ocidir/blob.go", "import (\n\t\"context\"\n", "import (\n\t\"bufio\"\n\t\"context\"\n")])

# ---------------------------------------------------------------- C13
case("C13", "C13-D9", "mutant", "historical defect D9 re-introduced: child data filled from the parent's body",
     patch="selftest/regress/D9.diff", expect=[("C13.R3", "dagPut", "Data of")])
case("C13", "C13-seed1", "mutant", "seeded: existing inline data kept when its length equals the size",
     patch="seeded/C13-1/patch.diff", expect=[("C13.R3", "dagPut", "data branch")])
case("C13", "C13-seed2", "mutant", "seeded: unchanged layers copied from the image source instead of the layer's own source",
     patch="seeded/C13-2/patch.diff", expect=[("C13.R5", "Apply", "copy source")])
case("C13", "C13-m-src", "mutant", "manifest pushed to the source reference",
     edits=[("mod/dag.go", "\t\trPut := rTgt\n", "\t\trPut := rSrc\n")],
     expect=[("C13.R1", "dagPut", "ManifestPut")])
case("C13", "C13-m-nocompare", "mutant", "pushed layer digest not compared with the computed one",
     edits=[("mod/mod.go", "\t\t\t\t} else if dl.newDesc.Digest != dNew.Digest {\n\t\t\t\t\treturn nil, fmt.Errorf(\"layer digest mismatch, pushed %s, expected %s\", dNew.Digest.String(), dl.newDesc.Digest.String())\n\t\t\t\t}\n", "\t\t\t\t}\n")],
     expect=[("C13.R4", "Apply", "Digest compared")])

# ---------------------------------------------------------------- C14
case("C14", "C14-seed1", "mutant", "seeded: seen-map key keeps the digest of the referencing manifest",
     patch="seeded/C14-1/patch.diff", expect=[("C14.R2", "imageCopy", "gate key")])
case("C14", "C14-seed2", "mutant", "seeded: a declined mount is remembered and later mounts are not attempted",
     patch="seeded/C14-2/patch.diff", expect=[("C14.R1", "BlobMount", "unconditional")])
case("C14", "C14-m-nohead", "mutant", "BlobCopy fetches from the source without asking the target first",
     edits=[("blob.go", "\tif _, err := rc.BlobHead(ctx, refTgt, tDesc); err == nil {", "\tif _, err := rc.BlobHead(ctx, refSrc, tDesc); err != nil {")],
     expect=[("C14.R1", "BlobCopy", "")])
case("C14", "C14-m-samerepo", "mutant", "layers copied even when source and target repository are the same",
     edits=[("image.go", "\tif mSrcImg, ok := mSrc.(manifest.Imager); ok && mSrc.IsSet() && !ref.EqualRepository(refSrc, refTgt) {", "\tif mSrcImg, ok := mSrc.(manifest.Imager); ok && mSrc.IsSet() {")],
     expect=[("C14.R3", "imageCopyOpt", "content goroutine")])
case("C14", "C14-m-alwaysput", "mutant", "manifest pushed even when the target already has it",
     edits=[("image.go", "\tif mTgt == nil || sDig != mTgt.GetDescriptor().Digest || opt.forceRecursive {\n\t\terr = rc.ManifestPut(ctx, refTgt, mSrc, mOpts...)", "\tif mTgt == nil || sDig != mTgt.GetDescriptor().Digest || opt.forceRecursive || !child {\n\t\terr = rc.ManifestPut(ctx, refTgt, mSrc, mOpts...)")],
     expect=[("C14.R4", "imageCopyOpt", "manifest write")])
case("C14", "C14-b-keyhelper", "benign", "gate key computed by a small helper",
     edits=[("image.go", "\tseenCB, err := imageSeenOrWait(ctx, opt, refTgt.SetTag(\"\").CommonName(), \"\", d.Digest, []digest.Digest{})", "\tseenCB, err := imageSeenOrWait(ctx, opt, seenRepoKey(refTgt), \"\", d.Digest, []digest.Digest{})"),
            ("image.go", "// imageSeenOrWait returns either a callback", "func seenRepoKey(r ref.Ref) string {\n\treturn r.SetTag(\"\").CommonName()\n}\n\n// imageSeenOrWait returns either a callback")])

# ---------------------------------------------------------------- C18
case("C18", "C18-seed1", "mutant", "seeded: all filters of a list merged into one wrongly anchored expression",
     patch="seeded/C18-1/patch.diff", expect=[("C18.R2", "filterCompile", "filter pattern")])
case("C18", "C18-m-checkwrites", "mutant", "check action no longer returns before the copy",
     edits=[("cmd/regsync/root.go", "\tif action == actionCheck {\n\t\treturn nil\n\t}\n\n\t// wait for parallel tasks", "\t// wait for parallel tasks")],
     expect=[("C18.R1", "processRef", "")])
case("C18", "C18-m-unanchored", "mutant", "deny expressions compiled without the end anchor",
     edits=[("cmd/regsync/root.go", "\t\t\texp, err := regexp.Compile(\"^\" + filter + \"$\")\n\t\t\tif err != nil {\n\t\t\t\treturn result, err\n\t\t\t}\n\t\t\tfor i := range result {", "\t\t\texp, err := regexp.Compile(\"^\" + filter)\n\t\t\tif err != nil {\n\t\t\t\treturn result, err\n\t\t\t}\n\t\t\tfor i := range result {")],
     expect=[("C18.R2", "filterList", "filter pattern")])
case("C18", "C18-m-backupsrc", "mutant", "backup copies the new source image instead of the old target",
     edits=[("cmd/regsync/root.go", "\t\terr = opts.rc.ImageCopy(ctx, tgt, backupRef)", "\t\terr = opts.rc.ImageCopy(ctx, src, backupRef)")],
     expect=[("C18.R3", "processRef", "")])
case("C18", "C18-b-noncapture", "benign", "filters wrapped in a non-capturing group",
     edits=[("cmd/regsync/root.go", "\t\t\texp, err := regexp.Compile(\"^\" + filter + \"$\")\n\t\t\tif err != nil {\n\t\t\t\treturn result, err\n\t\t\t}\n\t\t\tfor i := range in {", "\t\t\texp, err := regexp.Compile(\"^(?:\" + filter + \")$\")\n\t\t\tif err != nil {\n\t\t\t\treturn result, err\n\t\t\t}\n\t\t\tfor i := range in {")])

case("C18", "C18-seed2", "mutant", "seeded: platform digest cached under the index digest alone",
     patch="seeded/C18-2/patch.diff", expect=[("C18.R4", "getPlatformDigest", "store into cache")])
case("C05", "C05-seed3", "mutant", "seeded: no chunked fall-back when the registry refused the single PUT with a 4xx",
     patch="seeded/C05-3/patch.diff", expect=[("C05.R3", "BlobPut", "fall-back taken whenever the source rewinds")])
case("C09", "C09-seed3", "mutant", "seeded: Docker import hoists the list entry into a local before the selection by name",
     patch="seeded/C09-3/patch.diff", expect=[("C09.R8", "imageImportDockerAddLayerHandlers", "read of the manifest.json list")])
case("C09", "C09-b-hoist", "benign", "the selected entry hoisted into a local after the selection",
     edits=[("image.go", "\t// make a docker v2 manifest from first json array entry (can only tag one image)\n\ttrd.dockerManifest.SchemaVersion = 2\n\ttrd.dockerManifest.MediaType = mediatype.Docker2Manifest\n\ttrd.dockerManifest.Layers = make([]descriptor.Descriptor, len(trd.dockerManifestList[index].Layers))",
             "\timage := trd.dockerManifestList[index]\n\ttrd.dockerManifest.SchemaVersion = 2\n\ttrd.dockerManifest.MediaType = mediatype.Docker2Manifest\n\ttrd.dockerManifest.Layers = make([]descriptor.Descriptor, len(image.Layers))")])
case("C15", "C15-seed4", "mutant", "seeded: regctl ref retries a refused argument with the host parser",
     patch="seeded/C15-4/patch.diff", expect=[("C15.R7", "runRef", "parse by New")])
case("C18", "C18-seed3", "mutant", "seeded: catalog paging helper returns the filtered page; end test and marker computed from it",
     patch="seeded/C18-3/patch.diff", expect=[("C18.R6", "processRegistry", "marker pager")])
case("C18", "C18-seed4", "mutant", "seeded: source tag listing shared between entries of one pass while filterList blanks rejected elements in place",
     patch="seeded/C18-4/patch.diff", expect=[("C18.R5", "processRepo", "listing passed to filterList")])
case("C18", "C18-b-sharedcopy", "benign", "the same shared listing, with filterList working on a copy",
     patch="selftest/variants/C18-b-sharedcopy.diff")
case("C18", "C18-b-platkey", "benign", "platform digest cached under index digest and platform string",
     patch="selftest/variants/C18-b-platkey.diff")

# ---------------------------------------------------------------- C20
case("C20", "C20-D11", "mutant", "historical defect D11 re-introduced: ManifestDelete uses an unvalidated digest as a file name",
     patch="selftest/regress/D11.diff", expect=[("C20.R1", "ManifestDelete", "os.Remove")])
case("C20", "C20-seed1", "mutant", "seeded: archive extraction materialises symlinks behind a lexical check",
     patch="seeded/C20-1/patch.diff", expect=[("C20.R2", "Extract", "os.Symlink")])
case("C20", "C20-seed2", "mutant", "seeded: backslashes rewritten to slashes after the title was cleaned",
     patch="seeded/C20-2/patch.diff", expect=[("C20.R3", "runArtifactGet", "")])
case("C20", "C20-m-unrooted", "mutant", "tar entry names cleaned without the leading slash",
     edits=[("pkg/archive/tar.go", "\t\tfn := filepath.Join(path, filepath.Clean(\"/\"+hdr.Name))", "\t\tfn := filepath.Join(path, filepath.Clean(hdr.Name))")],
     expect=[("C20.R2", "Extract", "")])
case("C20", "C20-m-blobget", "mutant", "layout BlobGet without validating the digest",
     edits=[("scheme/ocidir/blob.go", "func (o *OCIDir) BlobGet(ctx context.Context, r ref.Ref, d descriptor.Descriptor) (blob.Reader, error) {\n\terr := d.Digest.Validate()\n\tif err != nil {\n\t\treturn nil, fmt.Errorf(\"failed to validate digest %s: %w\", d.Digest.String(), err)\n\t}\n", "func (o *OCIDir) BlobGet(ctx context.Context, r ref.Ref, d descriptor.Descriptor) (blob.Reader, error) {\n\tvar err error\n")],
     expect=[("C20.R1", "BlobGet", "os.Open")])
case("C20", "C20-m-export", "mutant", "export writes a descriptor path without validating its digest",
     edits=[("image.go", "\tif err := desc.Digest.Validate(); err != nil {\n\t\treturn err\n\t}\n\ttarFilename := tarOCILayoutDescPath(desc)", "\ttarFilename := tarOCILayoutDescPath(desc)")],
     expect=[("C20.R4", "imageExportDescriptor", "descriptor path")])
case("C20", "C20-b-filepath", "benign", "layout BlobDelete builds its path with filepath.Join",
     edits=[("scheme/ocidir/blob.go", "\tfile := path.Join(r.Path, \"blobs\", d.Digest.Algorithm().String(), d.Digest.Encoded())\n\treturn os.Remove(file)", "\tfile := filepath.Join(r.Path, \"blobs\", d.Digest.Algorithm().String(), d.Digest.Encoded())\n\treturn os.Remove(file)"),
            ("scheme/ocidir/blob.go", "\t\"os\"\n\t\"path\"\n", "\t\"os\"\n\t\"path\"\n\t\"path/filepath\"\n")])

# ---------------------------------------------------------------- C02
case("C02", "C02-seed1", "mutant", "seeded: SetLayers/SetManifestList return early when the list looks unchanged",
     patch="seeded/C02-1/patch.diff", expect=[("C02.R1", "SetLayers", "resync"), ("C02.R1", "SetManifestList", "resync")])
case("C02", "C02-seed2", "mutant", "seeded: layout manifestGet passes only the media type of the index descriptor",
     patch="seeded/C02-2/patch.diff", expect=[("C02.R5", "manifestGet", "manifest.New")])
case("C02", "C02-m-noupdate", "mutant", "SetAnnotation returns without updateDesc",
     edits=[("types/manifest/oci1.go", "func (m *oci1Index) SetAnnotation(key, val string) error {\n\tif !m.manifSet {\n\t\treturn errs.ErrManifestNotSet\n\t}\n\tif m.Annotations == nil {\n\t\tm.Annotations = map[string]string{}\n\t}\n\tif val != \"\" {\n\t\tm.Annotations[key] = val\n\t} else {\n\t\tdelete(m.Annotations, key)\n\t}\n\treturn m.updateDesc()\n}", "func (m *oci1Index) SetAnnotation(key, val string) error {\n\tif !m.manifSet {\n\t\treturn errs.ErrManifestNotSet\n\t}\n\tif m.Annotations == nil {\n\t\tm.Annotations = map[string]string{}\n\t}\n\tif val != \"\" {\n\t\tm.Annotations[key] = val\n\t} else {\n\t\tdelete(m.Annotations, key)\n\t}\n\treturn nil\n}")],
     expect=[("C02.R1", "oci1Index).SetAnnotation", "resync")])
case("C02", "C02-m-rawstale", "mutant", "updateDesc forgets the raw body",
     edits=[("types/manifest/docker2.go", "func (m *docker2Manifest) updateDesc() error {\n\tmj, err := json.Marshal(m.Manifest)\n\tif err != nil {\n\t\treturn err\n\t}\n\tm.rawBody = mj\n", "func (m *docker2Manifest) updateDesc() error {\n\tmj, err := json.Marshal(m.Manifest)\n\tif err != nil {\n\t\treturn err\n\t}\n")],
     expect=[("C02.R2", "docker2Manifest", "coherent")])
case("C02", "C02-m-nocompare", "mutant", "fromCommon ignores a digest mismatch",
     edits=[("types/manifest/manifest.go", "\t// verify digest didn't change\n\tif origDigest != \"\" && origDigest != c.desc.Digest {\n\t\treturn nil, fmt.Errorf(\"manifest digest mismatch, expected %s, computed %s%.0w\", origDigest, c.desc.Digest, errs.ErrDigestMismatch)\n\t}\n\treturn m, nil\n}\n\nfunc verifyMT", "\t_ = origDigest\n\treturn m, nil\n}\n\nfunc verifyMT")],
     expect=[("C02.R3", "fromCommon", "digest mismatch")])
case("C02", "C02-m-remarshal", "mutant", "MarshalJSON re-serialises instead of returning the stored bytes",
     edits=[("types/manifest/oci1.go", "func (m *oci1Manifest) MarshalJSON() ([]byte, error) {\n\tif !m.manifSet {\n\t\treturn []byte{}, errs.ErrManifestNotSet\n\t}\n\n\tif len(m.rawBody) > 0 {\n\t\treturn m.rawBody, nil\n\t}\n", "func (m *oci1Manifest) MarshalJSON() ([]byte, error) {\n\tif !m.manifSet {\n\t\treturn []byte{}, errs.ErrManifestNotSet\n\t}\n")],
     expect=[("C02.R4", "oci1Manifest).MarshalJSON", "raw body")])

# ---------------------------------------------------------------- C03
case("C03", "C03-seed1", "mutant", "seeded: DescriptorListFilter filters in place (dl[:0])",
     patch="seeded/C03-1/patch.diff", expect=[("C03.R6", "DescriptorListFilter", "fresh result")])
case("C03", "C03-seed2", "mutant", "seeded: digest-tag copies inherit the child flag",
     patch="seeded/C03-2/patch.diff", expect=[("C03.R3", "imageCopyOpt", "by tag")])
case("C03", "C03-m-noconfig", "mutant", "copy skips the config blob",
     edits=[("image.go", "\t\t\t\terr := rc.imageCopyBlob(ctx, refSrc, refTgt, cd, opt, bOpt...)\n", "\t\t\t\tvar err error\n\t\t\t\t_ = cd\n")],
     expect=[("C03.R1", "imageCopyOpt", "GetConfig")])
case("C03", "C03-m-earlyok", "mutant", "traversal returns success when the target manifest merely exists",
     edits=[("image.go", "\t// when copying/updating digest tags or referrers, only the source digest is needed for an image\n", "\tif mTgt != nil && child {\n\t\treturn nil\n\t}\n\t// when copying/updating digest tags or referrers, only the source digest is needed for an image\n")],
     expect=[("C03.R2", "imageCopyOpt", "success return")])
case("C03", "C03-m-mt", "mutant", "export no longer treats schema1 as a manifest",
     edits=[("image.go", "\tcase mediatype.Docker1Manifest, mediatype.Docker1ManifestSigned, mediatype.Docker2Manifest, mediatype.OCI1Manifest:\n\t\t// Handle single platform manifests", "\tcase mediatype.Docker2Manifest, mediatype.OCI1Manifest:\n\t\t// Handle single platform manifests")],
     expect=[("C03.R5", "imageExportDescriptor", "media types")])
case("C03", "C03-m-closefirst", "mutant", "waiters are woken before the error is stored",
     edits=[("image.go", "\t\t\tseenNew.err = err\n\t\t\tclose(seenNew.done)\n", "\t\t\tclose(seenNew.done)\n\t\t\tseenNew.err = err\n")],
     expect=[("C03.R4", "imageSeenOrWait", "error stored")])

# ---------------------------------------------------------------- C09
case("C09", "C09-seed2", "mutant", "seeded: RepoTags printed from a reference that may still carry its digest",
     patch="seeded/C09-2/patch.diff", expect=[("C09.R5", "ImageExport", "RepoTags")])
case("C09", "C09-m-forward", "mutant", "finish list run front to back (parents before nested manifests)",
     edits=[("image.go", "\tfor i := len(trd.finish) - 1; i >= 0; i-- {\n\t\terr := trd.finish[i]()", "\tfor i := 0; i < len(trd.finish); i++ {\n\t\terr := trd.finish[i]()")],
     expect=[("C09.R4", "imageImportOCIPushManifests", "reverse")])
case("C09", "C09-m-nosize", "mutant", "export does not compare the blob size",
     edits=[("image.go", "\t\tif size != desc.Size {\n\t\t\treturn fmt.Errorf(\"blob size mismatch, descriptor %d, received %d\", desc.Size, size)\n\t\t}\n", "\t\t_ = size\n")],
     expect=[("C09.R3", "imageExportDescriptor", "blob size")])
case("C09", "C09-m-pushearly", "mutant", "import pushes the manifest while handlers are still being registered",
     edits=[("image.go", "\tif push {\n\t\ttrd.finish = append(trd.finish, func() error {\n", "\tif push {\n\t\tif err := rc.ManifestPut(ctx, r.SetDigest(m.GetDescriptor().Digest.String()), m); err != nil {\n\t\t\treturn err\n\t\t}\n\t\ttrd.finish = append(trd.finish, func() error {\n")],
     expect=[("C09.R4", "imageImportOCIHandleManifest", "deferred")])

# ---------------------------------------------------------------- C11
case("C11", "C11-seed1", "mutant", "seeded: one header map shared by all attempts of a request",
     patch="seeded/C11-1/patch.diff", expect=[("C11.R3", "next", "request header map")])
case("C11", "C11-seed2", "mutant", "seeded: handler table keyed by the host with the port stripped",
     patch="seeded/C11-2/patch.diff", expect=[("C11.R2", "UpdateRequest", "handler table key")])
case("C11", "C11-m-logpass", "mutant", "password logged when a host changes",
     edits=[("regclient.go", "\t\t\tslog.String(\"user\", configHost.User))\n\t\terr := rc.hostSet(configHost)", "\t\t\tslog.String(\"user\", configHost.User+\":\"+configHost.Pass))\n\t\terr := rc.hostSet(configHost)")],
     expect=[("C11.R6", "hostLoad", "slog argument")])
case("C11", "C11-m-nomask", "mutant", "nameless entry logged without masking the token",
     edits=[("regclient.go", "\t\t\tif configHost.Token != \"\" {\n\t\t\t\tconfigHost.Token = \"***\"\n\t\t\t}\n", "")],
     expect=[("C11.R6", "hostLoad", "slog struct")])
case("C11", "C11-m-http", "mutant", "clear text also chosen for insecure TLS",
     edits=[("internal/reghttp/http.go", "\t\t\t\tif h.config.TLS == config.TLSDisabled {\n\t\t\t\t\tu.Scheme = \"http\"\n\t\t\t\t}", "\t\t\t\tif h.config.TLS != config.TLSEnabled {\n\t\t\t\t\tu.Scheme = \"http\"\n\t\t\t\t}")],
     expect=[("C11.R4", "next", "scheme http")])
case("C11", "C11-m-reqheader", "mutant", "request headers logged uncensored",
     edits=[("internal/reghttp/http.go", "\t\t\tslog.Any(\"req-headers\", reqHead),\n\t\t\tslog.String(\"err\", err.Error()))", "\t\t\tslog.Any(\"req-headers\", req.Header),\n\t\t\tslog.String(\"err\", err.Error()))")],
     expect=[("C11.R6", "RoundTrip", "slog headers")])
case("C11", "C11-m-mirrorauth", "mutant", "auth handler taken from the upstream host entry for every attempt",
     edits=[("internal/reghttp/http.go", "\t\t\thAuth := h.getAuth(req.Repository)\n", "\t\t\thAuth := reqHost.getAuth(req.Repository)\n")],
     expect=[("C11.R3", "next", "same host entry")])

# ---------------------------------------------------------------- C15
case("C15", "C15-seed1", "mutant", "seeded: library/ prefix decided before the Hub aliases are rewritten",
     patch="seeded/C15-1/patch.diff", expect=[("C15.R5", "New", "Docker Hub")])
case("C15", "C15-seed2", "mutant", "seeded: scheme cut out with strings.Cut instead of the anchored pattern",
     patch="seeded/C15-2/patch.diff", expect=[("C15.R5", "New", "scheme from the grammar")])
case("C15", "C15-m-upper", "mutant", "repository parts accept upper case",
     edits=[("types/ref/ref.go", "\trepoPartS   = `[a-z0-9]+(?:(?:\\.|_|__|-+)[a-z0-9]+)*`", "\trepoPartS   = `[a-zA-Z0-9]+(?:(?:\\.|_|__|-+)[a-z0-9]+)*`")],
     expect=[("C15.R2", "refRE", "repository alphabet")])
case("C15", "C15-m-unanchored", "mutant", "reference pattern loses its end anchor",
     edits=[("types/ref/ref.go", "\t\t`(?:` + regexp.QuoteMeta(`@`) + `(` + digestS + `))?$`)\n\tocidirRE", "\t\t`(?:` + regexp.QuoteMeta(`@`) + `(` + digestS + `))?`)\n\tocidirRE")],
     expect=[("C15.R1", "refRE", "anchored")])
case("C15", "C15-m-taglen", "mutant", "tags of up to 256 characters",
     edits=[("types/ref/ref.go", "\ttagS        = `[a-zA-Z0-9_][a-zA-Z0-9._-]{0,127}`", "\ttagS        = `[a-zA-Z0-9_][a-zA-Z0-9._-]{0,255}`")],
     expect=[("C15.R2", "", "tag alphabet")])
case("C15", "C15-m-settag", "mutant", "SetTag forgets to clear the digest but also resets the path",
     edits=[("types/ref/ref.go", "\tr.Tag = tag\n\tr.Digest = \"\"\n\tr.Reference = r.CommonName()", "\tr.Tag = tag\n\tr.Path = \"\"\n\tr.Reference = r.CommonName()")],
     expect=[("C15.R3", "SetTag", "")])

# ---------------------------------------------------------------- C16
case("C16", "C16-seed2", "mutant", "seeded: NewCompare normalises its parameter after copying it",
     patch="seeded/C16-2/patch.diff", expect=[("C16.R2", "NewCompare", "normalised")])
case("C16", "C16-m-alias", "mutant", "aarch64 no longer mapped",
     edits=[("types/platform/platform.go", "\tcase \"aarch64\", \"arm64\":\n\t\tp.Architecture = \"arm64\"", "\tcase \"arm64\":\n\t\tp.Architecture = \"arm64\"")],
     expect=[("C16.R1", "normalize", "aarch64")])
case("C16", "C16-m-idem", "mutant", "armhf mapped to arm with an empty variant (which normalises again to v7)",
     edits=[("types/platform/platform.go", "\tcase \"armhf\":\n\t\tp.Architecture = \"arm\"\n\t\tp.Variant = \"v7\"", "\tcase \"armhf\":\n\t\tp.Architecture = \"arm\"\n\t\tp.Variant = \"\"")],
     expect=[("C16.R1", "normalize", "")])
case("C16", "C16-seed1", "mutant", "seeded: DescriptorListSearch returns at the first entry that Match accepts",
     patch="seeded/C16-1/patch.diff", expect=[("C16.R3", "DescriptorListSearch", "selection loop scans the whole list")])
case("C16", "C16-m-staleprev", "mutant", "the kept entry is updated but the previous platform is not",
     edits=[("types/descriptor/descriptor.go", "\t\t\tret = d\n\t\t\tretPlat = *d.Platform\n", "\t\t\tret = d\n")],
     expect=[("C16.R4", "DescriptorListSearch", "best-so-far update")])
case("C16", "C16-m-swapped", "mutant", "Better called with previous and candidate swapped",
     edits=[("types/descriptor/descriptor.go", "comp.Better(*d.Platform, retPlat)", "comp.Better(retPlat, *d.Platform)")],
     expect=[("C16.R4", "DescriptorListSearch", "best-so-far update")])
case("C16", "C16-b-indexloop", "benign", "selection loop written with an index",
     edits=[("types/descriptor/descriptor.go", "\tfor _, d := range dl {\n\t\tif d.Platform == nil {\n\t\t\tcontinue\n\t\t}\n\t\tif comp.Better(*d.Platform, retPlat) {", "\tfor i := 0; i < len(dl); i++ {\n\t\td := dl[i]\n\t\tif d.Platform == nil {\n\t\t\tcontinue\n\t\t}\n\t\tif comp.Better(*d.Platform, retPlat) {")])
case("C16", "C16-b-ifform", "benign", "macos alias written as an if statement",
     edits=[("types/platform/platform.go", "\tswitch p.OS {\n\tcase \"macos\":\n\t\tp.OS = \"darwin\"\n\t}\n", "\tif p.OS == \"macos\" {\n\t\tp.OS = \"darwin\"\n\t}\n")])

# ---------------------------------------------------------------- second round of seeded changes (generated from the matrix)
case('C01', "C01-seed3", "mutant", 'seeded: types/blob BReader gains an io.WriterTo implementation so io.Copy can stream a blob straight from the underlyi',
     patch="seeded/C01-3/patch.diff", expect=[('C01.R8', 'WriteTo', 'verification result returned')])
case("C01", "C01-b-finish", "benign", "the whole EOF handling of Read (test and comparisons) moved into a method that Read returns",
     patch="selftest/variants/C01-b-finish.diff")
case("C01", "C01-m-finish", "mutant", "EOF handling in a method, digest mismatch error built but not returned",
     patch="selftest/variants/C01-m-finish.diff", expect=[("C01.R2", "Read", "mismatch returns a fresh error")])
case("C01", "C01-b-writeto", "benign", "the same WriterTo written correctly: only an error identical to io.EOF is turned into nil",
     patch="selftest/variants/C01-b-writeto.diff")
case('C01', "C01-seed4", "mutant", 'seeded: scheme/ocidir BlobGet and BlobHead duplicated the validate-digest / build-path / open / stat sequence; the cha',
     patch="seeded/C01-4/patch.diff", expect=[('C01.R1', 'BlobGet', 'blob.NewReader')])
case('C02', "C02-seed3", "mutant", 'seeded: image.go imageExportDescriptor (used by RegClient.ImageExport): the two places that wrote a fetched manifest i',
     patch="seeded/C02-3/patch.diff", expect=[('C02.R8', 'imageExportDescriptor', 'JSON encoding through tarWriteFileJSON')])
case('C02', "C02-seed4", "mutant", 'seeded: types/manifest/manifest.go fromCommon: when a raw body is present the descriptor size was unconditionally rese',
     patch="seeded/C02-4/patch.diff", expect=[('C02.R7', 'fromCommon', 'descriptor digest')])
case('C03', "C03-seed3", "mutant", 'seeded: In regclient.BlobCopy (blob.go) the local copy of the descriptor with the URLs stripped (tDesc := d; tDesc.URL',
     patch="seeded/C03-3/patch.diff", expect=[('C03.R7', 'BlobCopy', 'BlobHead on the target')])
case('C03', "C03-seed4", "mutant", "seeded: scheme/ocidir.Close was restructured to 'stop leaking modRefs entries': the single guard (!ok || !gc.mod || gc",
     patch="seeded/C03-4/patch.diff", expect=[('C03.R9', 'Close', 'delete(modRefs)')])
case('C04', "C04-seed4", "mutant", 'seeded: scheme/ocidir/manifest.go: manifestPut is refactored, the tmpfile+rename code that stores the manifest in blob',
     patch="seeded/C04-4/patch.diff", expect=[('C04.R7', 'manifestPut', 'index update after rename')])
case('C06', "C06-seed3", "mutant", 'seeded: Defensive guard added to the Link-following loop in scheme/reg/tag.go TagList: when a followed page contains n',
     patch="seeded/C06-3/patch.diff", expect=[('C06.R4', 'TagList', 'loop exit')])
case('C06', "C06-seed4", "mutant", 'seeded: Reordering in scheme/ocidir/manifest.go ManifestDelete: the readIndex call is hoisted above the referrer handl',
     patch="seeded/C06-4/patch.diff", expect=[('C06.R7', 'ManifestDelete', 'write of the index read earlier')])
case('C07', "C07-seed3", "mutant", 'seeded: writeIndex in scheme/ocidir/ocidir.go no longer stages the new index.json in a randomly named temp file (os.Cr',
     patch="seeded/C07-3/patch.diff", expect=[('C07.R1', 'lockIndex', 'os.OpenFile')])
case('C07', "C07-seed4", "mutant", 'seeded: BlobPut in scheme/ocidir/blob.go now removes an already existing blobs/<alg>/<hex> before renaming the verifie',
     patch="seeded/C07-4/patch.diff", expect=[('C07.R4', 'BlobPut', 'os.Rename destination')])
case('C08', "C08-seed3", "mutant", "seeded: ImageCopy's inline GCLock/defer GCUnlock on the target is replaced by a helper imageCopyGCLock(refTgt, opt.ref",
     patch="seeded/C08-3/patch.diff", expect=[('C08.R1', 'imageCopyGCLock', 'GCLock paired with defer GCUnlock')])
case('C08', "C08-seed4", "mutant", 'seeded: The sweep phase of OCIDir.Close now validates every directory entry under blobs/ before considering it: the al',
     patch="seeded/C08-4/patch.diff", expect=[('C08.R6', 'Close', "sweep removal independent of the name's shape")])
case('C09', "C09-seed4", "mutant", "seeded: imageImportOCIAddHandler (image.go) is 'simplified': instead of registering handlers for both oci-layout and i",
     patch="seeded/C09-4/patch.diff", expect=[('C09.R6', 'imageImportOCIAddHandler$2', 'handler registered during the scan')])
case('C10', "C10-seed3", "mutant", "seeded: Robustness clean-up of scheme/ocidir ManifestDelete: index.json is now read once at the top of the function ('",
     patch="seeded/C10-3/patch.diff", expect=[('C10.R6', 'ManifestDelete', 'write of the index read earlier')])
case('C10', "C10-seed4", "mutant", "seeded: Optimisation in cmd/regctl 'manifest rm' (also reached as 'image rm/delete'): when --force-tag-dereference res",
     patch="seeded/C10-4/patch.diff", expect=[('C10.R7', 'runManifestDelete', 'WithManifest argument')])
case('C11', "C11-seed3", "mutant", 'seeded: Log masking of rejected host entries is moved from the call site into a new slog.LogValuer on config.Host, but',
     patch="seeded/C11-3/patch.diff", expect=[('C11.R6', 'hostLoad', 'slog struct Host')])
case('C11', "C11-seed4", "mutant", "seeded: config/docker.go: entries of docker's config.json are now created through a new helper dockerHostNew(name) ins",
     patch="seeded/C11-4/patch.diff", expect=[('C11.R8', 'dockerHostNew', 'strings.HasSuffix')])
case('C12', "C12-seed3", "mutant", 'seeded: internal/reghttp/http.go: the mirror sort is modernised from sort.Slice with an index based less-function to s',
     patch="seeded/C12-3/patch.diff", expect=[('C12.R5', 'sortHostsCmp$1', 'backing-off hosts after the others')])
case('C12', "C12-seed4", "mutant", 'seeded: cmd/regsync/root.go: processRegistry is refactored so that paging through the _catalog API is extracted into a',
     patch="seeded/C12-4/patch.diff", expect=[('C12.R7', 'repoListAll', 'marker pager')])
case('C13', "C13-seed4", "mutant", 'seeded: mod/config.go WithConfigTimestamp: after reading the base image config with rc.ImageConfig(optTime.BaseRef) th',
     patch="seeded/C13-4/patch.diff", expect=[('C13.R6', 'WithConfigTimestamp$1$1', 'RegClient.Close')])
case('C14', "C14-seed3", "mutant", 'seeded: blob.go, RegClient.BlobCopy: the cross repository mount on the same registry is now only attempted when the de',
     patch="seeded/C14-3/patch.diff", expect=[('C14.R1', 'BlobCopy', 'mount attempted on the same registry')])
case('C14', "C14-seed4", "mutant", 'seeded: scheme/reg/blob.go Reg.BlobHead and scheme/ocidir/blob.go OCIDir.BlobHead: both schemes now verify the stored ',
     patch="seeded/C14-4/patch.diff", expect=[('C14.R5', 'BlobHead', 'ContentLength compared with a size')])
case('C15', "C15-seed3", "mutant", "seeded: Ref.CommonName (types/ref/ref.go) now trims trailing '/' characters from the OCI layout path before printing a",
     patch="seeded/C15-3/patch.diff", expect=[('C15.R6', 'CommonName', 'field Path rewritten by strings.TrimRight')])
case('C16', "C16-seed4", "mutant", "seeded: types/platform/platform.go normalize(): the combined switch cases 'x86_64, x86-64, amd64' and 'aarch64, arm64'",
     patch="seeded/C16-4/patch.diff", expect=[('C16.R1', 'normalize', 'normal form is a fixed point')])
case('C17', "C17-seed3", "mutant", 'seeded: scheme/ocidir Close(): after the garbage collection the per-path state is dropped, and besides modRefs[r.Path]',
     patch="seeded/C17-3/patch.diff", expect=[('C17.R7', 'Close', 'delete on a map of throttles')])
case('C17', "C17-seed4", "mutant", "seeded: cmd/regbot/sandbox imageCopy(): optimisation that releases the shared 'parallel' throttle as soon as the copy ",
     patch="seeded/C17-4/patch.diff", expect=[('C17.R6', 'imageCopy', 'Acquire')])
case('C19', "C19-seed3", "mutant", 'seeded: Race fix in cmd/regbot/root.go runOnce: the error variable shared between the script goroutines (mainErr, writ',
     patch="seeded/C19-3/patch.diff", expect=[('C19.R5', 'runOnce', 'script run')])
case('C19', "C19-seed4", "mutant", 'seeded: Clean-up in cmd/regbot/sandbox: the per-binding `if s.dryRun { return 0 }` checks of manifest.put, <manifest>:',
     patch="seeded/C19-4/patch.diff", expect=[('C19.R1', 'manifestDelete', 'ungated call of ManifestDelete')])
case('C20', "C20-seed3", "mutant", "seeded: Refactor of scheme/ocidir/blob.go: the three copies of 'Digest.Validate() + path.Join(r.Path, 'blobs', algo, e",
     patch="seeded/C20-3/patch.diff", expect=[('C20.R1', 'BlobDelete', 'os.Remove path')])
case('C20', "C20-seed4", "mutant", "seeded: De-duplication refactor in scheme/ocidir/manifest.go: the identical 'resolve ref to descriptor' block of manif",
     patch="seeded/C20-4/patch.diff", expect=[('C20.R1', 'ManifestHead', 'os.ReadFile path')])

case("C07", "C07-b-writehelper", "benign", "manifestPut's temp-write-rename sequence moved into a helper, same order",
     patch="selftest/variants/C07-b-writehelper.diff")
case("C02", "C02-b-writehelper", "benign", "layout manifestPut writes through a helper (bytes and name still from the same manifest)",
     patch="selftest/variants/C07-b-writehelper.diff")
case("C20", "C20-b-writehelper", "benign", "layout manifest write helper takes the validated digest as a parameter",
     patch="selftest/variants/C07-b-writehelper.diff")
case("C04", "C04-b-writehelper", "benign", "layout manifest write helper, index still updated after the rename",
     patch="selftest/variants/C07-b-writehelper.diff")
case("C02", "C02-D15", "mutant", "historical defect D15 re-introduced: fromOrig keeps a supplied size and hashes the re-marshalled struct",
     patch="selftest/regress/D15.diff", expect=[("C02.R7", "fromOrig", "descriptor digest")])
case("C09", "C09-D16", "mutant", "historical defect D16 re-introduced: index-entry handler reads the entry, then imports it as a blob from the drained stream",
     patch="selftest/regress/D16.diff", expect=[("C09.R7", "imageImportOCIHandleManifest", "entry read")])

# ---------------------------------------------------------------- behaviour-preserving refactorings written by sub-agents (round 1)
# own property for all of them; other properties where a rule had to be generalised
import glob as _glob
_CROSS = {
    "C07-b1": ["C02"], "C08-b1": ["C03", "C04", "C07"], "C08-b4": ["C03"], "C09-b3": ["C20"], "C10-b4": ["C06"],
    "C04-b1": ["C03", "C09", "C14"], "C04-b3": ["C03", "C08", "C09", "C14"], "C03-b1": ["C04", "C09", "C14"],
    "C03-b2": ["C04"], "C03-b3": ["C14"], "C14-b3": ["C03"], "C20-b4": ["C09"],
}
_CROSS2 = {
    "C01-b2-4": ["C12", "C13", "C19"], "C11-b2-1": ["C12", "C13", "C19"], "C03-b2-2": ["C04"], "C03-b2-4": ["C05", "C15"],
    "C14-b2-3": ["C15"], "C07-b2-3": ["C06", "C13"], "C04-b2-3": ["C03"], "C06-b2-1": ["C02", "C20"], "C08-b2-2": ["C03"],
}
for _f in sorted(_glob.glob("/verif/selftest/variants/b2/C*-b2-*.diff")):
    _name = os.path.basename(_f)[:-5]
    _own = _name.split("-")[0]
    _desc = ""
    try:
        _desc = (json.load(open(_f[:-5] + ".json")).get("summary") or "")[:140].replace("\n", " ")
    except Exception:
        pass
    for _p in [_own] + _CROSS2.get(_name, []):
        case(_p, _p + "-agent-" + _name, "benign", "agent refactoring (round 2) " + _name + ": " + _desc, patch="selftest/variants/b2/" + _name + ".diff")

_CROSS3 = {
    "C01-b3-2": ["C03", "C20"], "C05-b3-3": ["C07"], "C08-b3-3": ["C03", "C06", "C07", "C10", "C20"],
    "C09-b3-2": ["C03", "C07", "C08", "C20"], "C12-b3-2": ["C10"], "C17-b3-2": ["C12"], "C02-b3-4": ["C06", "C14"],
}
for _f in sorted(_glob.glob("/verif/selftest/variants/b3/C*-b3-*.diff")):
    _name = os.path.basename(_f)[:-5]
    _own = _name.split("-")[0]
    _desc = ""
    try:
        _desc = (json.load(open(_f[:-5] + ".json")).get("summary") or "")[:140].replace("\n", " ")
    except Exception:
        pass
    for _p in [_own] + _CROSS3.get(_name, []):
        case(_p, _p + "-agent-" + _name, "benign", "agent refactoring (round 3) " + _name + ": " + _desc, patch="selftest/variants/b3/" + _name + ".diff")

# fourth round: refactorings aimed at the places the round-4 rules look at; the cross entries are the
# other properties whose checks raised a false alarm on the variant before they were corrected
_CROSS4 = {
    "C03-b4-1": ["C14"], "C03-b4-4": ["C14"], "C05-b4-4": ["C03", "C04", "C12", "C14"],
    "C07-b4-4": ["C04", "C06", "C10"], "C08-b4-1": ["C09"], "C08-b4-3": ["C03", "C04", "C06"],
    "C08-b4-4": ["C06", "C07", "C10"], "C10-b4-3": ["C03"], "C11-b4-1": ["C14"], "C14-b4-4": ["C03"],
    "C18-b4-1": ["C04"],
}
for _f in sorted(_glob.glob("/verif/selftest/variants/b4/C*-b4-*.diff")):
    _name = os.path.basename(_f)[:-5]
    _own = _name.split("-")[0]
    _desc = ""
    try:
        _desc = (json.load(open(_f[:-5] + ".json")).get("summary") or "")[:140].replace("\n", " ")
    except Exception:
        pass
    for _p in [_own] + _CROSS4.get(_name, []):
        case(_p, _p + "-agent-" + _name, "benign", "agent refactoring (round 4) " + _name + ": " + _desc, patch="selftest/variants/b4/" + _name + ".diff")

# fifth round: refactorings aimed at the places the round-5 rules look at
_CROSS5 = {
    "C05-b5-1": ["C01"], "C05-b5-2": ["C04"], "C06-b5-2": ["C03"], "C09-b5-1": ["C03"], "C17-b5-2": ["C04"],
}
for _f in sorted(_glob.glob("/verif/selftest/variants/b5/C*-b5-*.diff")):
    _name = os.path.basename(_f)[:-5]
    _own = _name.split("-")[0]
    _desc = ""
    try:
        _desc = (json.load(open(_f[:-5] + ".json")).get("summary") or "")[:140].replace("\n", " ")
    except Exception:
        pass
    for _p in [_own] + _CROSS5.get(_name, []):
        case(_p, _p + "-agent-" + _name, "benign", "agent refactoring (round 5) " + _name + ": " + _desc, patch="selftest/variants/b5/" + _name + ".diff")

for _f in sorted(_glob.glob("/verif/selftest/variants/b/C*-b*.diff")):
    _name = os.path.basename(_f)[:-5]
    _own = _name.split("-")[0]
    _desc = ""
    try:
        _desc = (json.load(open(_f[:-5] + ".json")).get("summary") or "")[:140].replace("\n", " ")
    except Exception:
        pass
    for _p in [_own] + _CROSS.get(_name, []):
        case(_p, _p + "-agent-" + _name, "benign", "agent refactoring " + _name + ": " + _desc, patch="selftest/variants/b/" + _name + ".diff")


# ---------------------------------------------------------------- third round of seeded changes (generated from the matrix)
case('C01', "C01-seed5", "mutant", 'seeded (round 3): RegClient.ImageExport (image.go, imageExportDescriptor) writes every config/layer blob it obtains with rc.Blob',
     patch="seeded/C01-5/patch.diff", expect=[('C01.R9', 'imageExportDescriptor', "io.CopyN of a blob reader")])
case('C01', "C01-seed6", "mutant", 'seeded (round 3): RegClient.BlobGetOCIConfig (blob.go) gains a leniency fall-back: when rc.BlobGet for the config descriptor fai',
     patch="seeded/C01-6/patch.diff", expect=[('C01.R10', 'BlobGetOCIConfig', "Descriptor.Data handed to WithRawBody")])
case('C02', "C02-seed5", "mutant", 'seeded (round 3): cmd/regctl/manifest.go runManifestPut (regctl manifest put) now normalises the bytes read from stdin with by',
     patch="seeded/C02-5/patch.diff", expect=[('C02.R9', 'runManifestPut', "raw body")])
case('C02', "C02-seed6", "mutant", 'seeded (round 3): scheme/reg/manifest.go Reg.ManifestGet gained a compatibility fall-back on the error path: when manifest.New f',
     patch="seeded/C02-6/patch.diff", expect=[('C02.R10', 'ManifestGet', "manifest.New(raw)")])
case('C03', "C03-seed5", "mutant", 'seeded (round 3): scheme/ocidir.ManifestHead was tidied up to stop doing an os.Stat of the manifest blob on every head request',
     patch="seeded/C03-5/patch.diff", expect=[('C03.R10', 'ManifestHead', "presence decided by the file")])
case('C03', "C03-seed6", "mutant", 'seeded (round 3): scheme/reg feature detection (featureGet/featureSet in scheme/reg/reg.go, used for the referrers API probe in ',
     patch="seeded/C03-6/patch.diff", expect=[('C03.R11', 'featureSet', "key of type featureKey")])
case('C04', "C04-seed6", "mutant", 'seeded (round 3): image.go imageCopyOpt, goroutine that copies one index entry: the switch on the entry media type is simplifie',
     patch="seeded/C04-6/patch.diff", expect=[('C04.R9', 'imageCopyOpt', "manifest media types")])
case('C05', "C05-seed5", "mutant", 'seeded (round 3): Clean-up of the progress reporting in the root package BlobCopy (blob.go). The ticker goroutine that polled bl',
     patch="seeded/C05-5/patch.diff", expect=[('C05.R6', 'BlobCopy', "source of BlobPut")])
case('C06', "C06-seed5", "mutant", 'seeded (round 3): scheme/reg/tag.go TagDelete, fall-back path for registries without a tag delete API: after pushing the unique ',
     patch="seeded/C06-5/patch.diff", expect=[('C06.R3', 'TagDelete', "ManifestDelete(placeholder digest)")])
case('C06', "C06-seed6", "mutant", 'seeded (round 3): scheme/ocidir/tag.go tagDelete gains a fall-back for layouts written by other tools that store the full image ',
     patch="seeded/C06-6/patch.diff", expect=[('C06.R8', 'tagDelete', "index entry removed")])
case('C08', "C08-seed6", "mutant", 'seeded (round 3): OCIDir.BlobPut (scheme/ocidir/blob.go) now creates its temporary upload file directly in <layout>/blobs/ and c',
     patch="seeded/C08-6/patch.diff", expect=[('C08.R7', 'BlobPut', "os.Rename")])
case('C09', "C09-seed6", "mutant", 'seeded (round 3): closeProcManifest (scheme/ocidir/close.go), the mark phase of the OCI layout garbage collection run by OCIDir.',
     patch="seeded/C09-6/patch.diff", expect=[('C09.R9', 'closeProcManifest', "index entry loaded by manifestGet")])
case('C10', "C10-seed5", "mutant", 'seeded (round 3): Optimisation of the feature (capability) cache in scheme/reg/reg.go: featureSet now stores the probe result bo',
     patch="seeded/C10-5/patch.diff", expect=[('C10.R8', 'featureSet', "key of type featureKey")])
case('C11', "C11-seed6", "mutant", 'seeded (round 3): cmd/regctl/registry.go runRegistryLogin(): a convenience fallback is added to the connectivity check that foll',
     patch="seeded/C11-6/patch.diff", expect=[('C11.R9', 'runRegistryLogin', "TLS disabled by code")])
case('C12', "C12-seed6", "mutant", 'seeded (round 3): scheme/reg/blob.go BlobGet: the descriptor size is no longer passed to reghttp as ExpectLen, it is passed as T',
     patch="seeded/C12-6/patch.diff", expect=[('C12.R8', 'BlobGet', "blob GET declares its length")])
case('C13', "C13-seed6", "mutant", 'seeded (round 3): scheme/ocidir/ocidir.go indexSet (the function that records a pushed manifest in index.json of an OCI layout):',
     patch="seeded/C13-6/patch.diff", expect=[('C13.R7', 'indexSet$1', "ref.name == tag")])
case('C14', "C14-seed5", "mutant", 'seeded (round 3): scheme/ocidir/ocidir.go, indexGet (tag lookup in the index.json of an OCI layout, used by OCIDir.ManifestHead ',
     patch="seeded/C14-5/patch.diff", expect=[('C14.R7', 'indexGet', "loose ref.name match HasSuffix")])
case('C14', "C14-seed6", "mutant", 'seeded (round 3): image.go, RegClient.imageCopyOpt: the HEAD request on the target manifest is now skipped when source and targe',
     patch="seeded/C14-6/patch.diff", expect=[('C14.R6', 'imageCopyOpt', "source fetch behind target head")])
case('C15', "C15-seed5", "mutant", 'seeded (round 3): Windows path support was added to the OCI layout path grammar in types/ref/ref.go: pathS (used by ocidirRE, i.',
     patch="seeded/C15-5/patch.diff", expect=[('C15.R2', 'ocidirRE', "layout path alphabet")])
case('C16', "C16-seed6", "mutant", 'seeded (round 3): cmd/regbot/sandbox/manifest.go rcManifestGet - the helper behind the regbot script calls manifest.get(ref[, pl',
     patch="seeded/C16-6/patch.diff", expect=[('C16.R5', 'rcManifestGet', "platform.Parse result")])
case('C17', "C17-seed5", "mutant", 'seeded (round 3): cmd/regsync processRef(): clean-up of the parallel throttle handling. Instead of a throttleDone() before eve',
     patch="seeded/C17-5/patch.diff", expect=[('C17.R6', 'processRef', "Acquire")])
case('C17', "C17-seed6", "mutant", 'seeded (round 3): scheme/reg ManifestPut(): consistency clean-up, the explicit err = resp.Close(); if err != nil { return ... }',
     patch="seeded/C17-6/patch.diff", expect=[('C17.R9', 'ManifestPut', "response of Do")])
case('C19', "C19-seed5", "mutant", 'seeded (round 3): Optimisation in the library core, scheme/ocidir/manifest.go: OCIDir.ManifestHead already detects the media typ',
     patch="seeded/C19-5/patch.diff", expect=[('C19.R1', 'configGet', "ungated call of ManifestHead")])
case('C19', "C19-seed6", "mutant", 'seeded (round 3): Clean-up in cmd/regbot/sandbox: the two identical log the action with script name and dry-run flag, then retu',
     patch="seeded/C19-6/patch.diff", expect=[('C19.R1', 'imageCopy', "ungated call of ImageCopy")])
case('C20', "C20-seed5", "mutant", 'seeded (round 3): Refactor of cmd/regsync/root.go (parse each reference once): the registry sync step no longer builds src/re',
     patch="seeded/C20-5/patch.diff", expect=[('C20.R5', 'refWithRepo', "Ref.Path stored")])
case('C20', "C20-seed6", "mutant", 'seeded (round 3): Bug-fix style edit of OCIDir.ManifestDelete (scheme/ocidir/manifest.go): an index entry whose manifest blob is',
     patch="seeded/C20-6/patch.diff", expect=[('C20.R1', 'ManifestDelete', "os.Remove path")])

case('C07', "C07-seed5", "mutant", 'seeded (round 3): initIndex writes the marker then an empty index; updateIndex no longer recovers from an unreadable index',
     patch="seeded/C07-5/patch.diff", expect=[('C07.R6', 'updateIndex', 'marker without index')])
case('C07', "C07-seed6", "mutant", 'seeded (round 3): import builds manifests from inline descriptor data at once; the finish queue becomes tag-first',
     patch="seeded/C07-6/patch.diff", expect=[('C07.R7', 'imageImportOCIHandleManifest', 'recursion into a child manifest')])
case('C10', "C10-seed6", "mutant", 'seeded (round 3): deprecated referrer options delegate to WithReferrerMatchOpt and overwrite the whole MatchOpt',
     patch="seeded/C10-6/patch.diff", expect=[('C10.R9', 'WithReferrerAT', 'option writes what it was given')])
case('C11', "C11-seed5", "mutant", 'seeded (round 3): host entry for a mirror built from the upstream entry (keeps CredHost)',
     patch="seeded/C11-5/patch.diff", expect=[('C11.R10', 'hostNew', 'template of a new host entry')])

case('C16', "C16-seed3", "mutant", 'seeded: platform digest cache keyed by list digest and plat.String(), which drops os.version',
     patch="seeded/C16-3/patch.diff", expect=[('C16.R6', 'getPlatformDigest', 'key rendered by Platform.String')])

case('C09', "C09-seed5", "mutant", 'seeded (round 3): regctl image export --platform pins the reference with SetDigest (drops the tag)',
     patch="seeded/C09-5/patch.diff", expect=[('C09.R11', 'runImageExport', 'reference exported')])
case('C15', "C15-seed6", "mutant", 'seeded (round 3): regctl image mod --annotation-base clears the digest with SetDigest("")',
     patch="seeded/C15-6/patch.diff", expect=[('C15.R8', 'newImageModCmd', 'SetDigest("")')])

case('C04', "C04-seed5", "mutant", 'seeded (round 3): blob existence cache records a blob after its upload failed',
     patch="seeded/C04-5/patch.diff", expect=[('C04.R11', 'BlobPut', 'nothing but cancel after a failed upload')])

# thirty unexported functions the rules know by name, renamed throughout (resolved by role, internal/rules/roles.go)
for _p in ["C%02d" % i for i in range(1, 21)]:
    case(_p, _p + "-b-rename", "benign", "thirty unexported anchor functions renamed throughout the module", patch="selftest/variants/all-b-rename.diff")
for _p in ["C01", "C02", "C09", "C14", "C15"]:
    case(_p, _p + "-b-fieldrename", "benign", "nine unexported fields that rules name renamed", patch="selftest/variants/all-b-fieldrename.diff")
for _p in ["C03", "C04", "C09", "C11", "C12", "C13", "C14", "C16", "C20"]:
    case(_p, _p + "-b-typerename", "benign", "six unexported types that rules name renamed throughout the module", patch="selftest/variants/all-b-typerename.diff")

case("C17", "C17-D18", "mutant", "historical defect D18 re-introduced: TagDelete defers the Close of its DELETE response and runs the fallback under it",
     patch="selftest/regress/D18.diff", expect=[("C17.R9", "TagDelete", "response of Do")])
case("C04", "C04-D19", "mutant", "historical defect D19 re-introduced: the wait loops overwrite a collected context.Canceled with a later nil completion",
     patch="selftest/regress/D19.diff", expect=[("C04.R12", "imageCopyOpt", "completion received in a loop")])
case("C17", "C17-D17", "mutant", "historical defect D17 re-introduced: the cancelled waiter searches the queue by the address of its (possibly zero-size) entry",
     patch="selftest/regress/D17.diff", expect=[("C17.R8", "Acquire", "own position")])

# ---------------------------------------------------------------- fourth round of seeded changes (generated from the matrix)
case('C01', "C01-seed7", "mutant", 'seeded (round 4): internal/limitread LimitRead.Read gains an early exit: once the remaining limit has reached exactly 0 it returns (0, io.EOF) ',
     patch="seeded/C01-7/patch.diff", expect=[('C01.R3', 'Read', "end of stream comes from the source")])
case('C01', "C01-seed8", "mutant", 'seeded (round 4): cmd/regctl regctl blob get never closed the blob reader; the change gives runBlobGet a named result (err error) and, right ',
     patch="seeded/C01-8/patch.diff", expect=[('C01.R11', 'runBlobGet', "deferred store to the error result")])
case('C02', "C02-seed7", "mutant", 'seeded (round 4): scheme/reg: Reg.ManifestPut no longer stores the callers manifest pointer in the manifest cache. It calls a new helper Reg.c',
     patch="seeded/C02-7/patch.diff", expect=[('C02.R11', 'cacheManPut', "manifest cached")])
case('C02', "C02-seed8", "mutant", 'seeded (round 4): types/manifest/manifest.go New(): the two blocks that fill in the expected digest were reordered. The response headers (Conte',
     patch="seeded/C02-8/patch.diff", expect=[('C02.R12', 'New', "reference digest before header digest")])
case('C03', "C03-seed7", "mutant", 'seeded (round 4): scheme/reg Reg.ReferrerList was tidied up so that the referrer list cache is written in one place: the two separate cacheRL',
     patch="seeded/C03-7/patch.diff", expect=[('C03.R12', 'ReferrerList', "cacheRL.Set value")])
case('C03', "C03-seed8", "mutant", 'seeded (round 4): scheme/reg Reg.TagList follows the Link: rel=next header to collect all pages of a registrys tag listing. The change makes t',
     patch="seeded/C03-8/patch.diff", expect=[('C03.R13', 'TagList', "loop exit")])
case('C04', "C04-seed7", "mutant", 'seeded (round 4): scheme/ocidir: the OCI layout scheme is made context aware (use the ctx that is already passed in): BlobGet, BlobHead, Blob',
     patch="seeded/C04-7/patch.diff", expect=[('C04.R13', 'closeProcManifest', "ignored load failure of manifestGet")])
case('C04', "C04-seed8", "mutant", 'seeded (round 4): image.go imageCopyOpt: the copy of the referrers of a manifest is moved behind the push of that manifest. The referrer lookup',
     patch="seeded/C04-8/patch.diff", expect=[('C04.R1', 'imageCopyOpt', "go#5 completes once")])
case('C05', "C05-seed7", "mutant", 'seeded (round 4): Optimisation of the retry loop in internal/reghttp/http.go (Resp.next), the HTTP helper every request of an upload session ',
     patch="seeded/C05-7/patch.diff", expect=[('C05.R9', 'next', "round trip failure")])
case('C05', "C05-seed8", "mutant", 'seeded (round 4): Clean-up in the OCI layout sibling, scheme/ocidir/blob.go:BlobPut, of the temp file used for write to temp file, verify dige',
     patch="seeded/C05-8/patch.diff", expect=[('C05.R8', 'BlobPut', "os.Create")])
case('C06', "C06-seed8", "mutant", 'seeded (round 4): scheme/ocidir/close.go Close (garbage collection run by rc.Close after a modification): refactored so the OCIDir mutex is onl',
     patch="seeded/C06-8/patch.diff", expect=[('C06.R10', 'Close', "sweep removal")])
case('C07', "C07-seed7", "mutant", 'seeded (round 4): ImageCopy (image.go, imageCopyBlob / imageSeenOrWait) no longer waits for a blob whose copy was already started by another ma',
     patch="seeded/C07-7/patch.diff", expect=[('C07.R9', 'imageSeenOrWait', "in-flight content is waited for")])
case('C07', "C07-seed8", "mutant", 'seeded (round 4): readIndex in scheme/ocidir/ocidir.go now validates the digest of every index.json entry after parsing (digests from the inde',
     patch="seeded/C07-8/patch.diff", expect=[('C07.R8', 'readIndex', "no failure after the index was parsed")])
case('C08', "C08-seed8", "mutant", 'seeded (round 4): OCIDir.refMod (scheme/ocidir/ocidir.go), the helper every writer shares (BlobPut, manifestPut, ManifestDelete, tagDelete) to ',
     patch="seeded/C08-8/patch.diff", expect=[('C08.R2', 'refMod', "store into modRefs")])
case('C10', "C10-seed7", "mutant", 'seeded (round 4): Optimisation of the shared filter helper types/descriptor.DescriptorListFilter: instead of collecting the matching descriptor',
     patch="seeded/C10-7/patch.diff", expect=[('C10.R10', 'DescriptorListFilter', "fresh result slice")])
case('C10', "C10-seed8", "mutant", 'seeded (round 4): Optimisation in the root package: RegClient.ReferrerList (referrer.go) now shares the response of a referrers query that is a',
     patch="seeded/C10-8/patch.diff", expect=[('C10.R11', 'ReferrerList', "returned listing")])
case('C11', "C11-seed7", "mutant", 'seeded (round 4): blob.go RegClient.BlobCopy(): the local copy of the descriptor with the external URLs removed (`tDesc := d; tDesc.URLs = []st',
     patch="seeded/C11-7/patch.diff", expect=[('C11.R11', 'BlobCopy', "BlobHead on the target")])
case('C11', "C11-seed8", "mutant", 'seeded (round 4): internal/reghttp/http.go: the url construction is moved out of the long closure in Resp.next() into a new method clientHost.r',
     patch="seeded/C11-8/patch.diff", expect=[('C11.R4', 'reqURL', "scheme http")])
case('C12', "C12-seed7", "mutant", 'seeded (round 4): blob.go (root package regclient) BlobCopy: the progress reporting for BlobWithCallback / ImageWithCallback is refactored. Ins',
     patch="seeded/C12-7/patch.diff", expect=[('C12.R9', 'BlobCopy', "source of BlobPut")])
case('C12', "C12-seed8", "mutant", 'seeded (round 4): scheme/reg/blob.go blobPutUploadChunked: the if / else-if chain that classifies the response to a chunk PATCH (201 early acce',
     patch="seeded/C12-8/patch.diff", expect=[('C12.R3', 'blobPutUploadChunked', "loop:for.loop")])
case('C14', "C14-seed7", "mutant", 'seeded (round 4): scheme/ocidir (OCI layout sibling of the registry scheme): OCIDir.ManifestHead no longer uses os.Stat for its verify underly',
     patch="seeded/C14-7/patch.diff", expect=[('C14.R8', 'scheme/ocidir', "link-following file calls only")])
case('C14', "C14-seed8", "mutant", 'seeded (round 4): image.go, RegClient.imageCopyOpt, config branch of an image manifest: the config blob is no longer copied by a goroutine thro',
     patch="seeded/C14-8/patch.diff", expect=[('C14.R2', 'imageCopyOpt', "blob copies go through the gate")])
case('C16', "C16-seed7", "mutant", 'seeded (round 4): mod/manifest.go rebaseAddStep (the step behind mod.WithRebase / mod.WithRebaseRefs, i.e. regctl image mod --rebase / --reb',
     patch="seeded/C16-7/patch.diff", expect=[('C16.R7', 'rebaseAddStep', "value remembered in mbOld")])
case('C17', "C17-seed7", "mutant", 'seeded (round 4): internal/reghttp Resp.next(): the check when error does not allow retries, abort with the last known err value (errs.ErrNot',
     patch="seeded/C17-7/patch.diff", expect=[('C17.R6', 'next', "Acquire")])
case('C17', "C17-seed8", "mutant", 'seeded (round 4): scheme/ocidir: the per-layout write throttle map OCIDir.throttle is turned from a map guarded by o.mu into a sync.Map, so tha',
     patch="seeded/C17-8/patch.diff", expect=[('C17.R7', 'throttleGet', "sync.Map.Store of a throttle")])
case('C18', "C18-seed8", "mutant", 'seeded (round 4): scheme/ocidir/ocidir.go indexGet (tag lookup in the index.json of an OCI layout, used by ManifestHead/ManifestGet of the ocid',
     patch="seeded/C18-8/patch.diff", expect=[('C18.R8', 'indexGet', "loose ref.name match HasSuffix")])
case('C19', "C19-seed7", "mutant", 'seeded (round 4): Feature addition with a precedence bug in the regbot command (package main): cmd/regbot/config.go gains an optional `defaults',
     patch="seeded/C19-7/patch.diff", expect=[('C19.R2', 'loadConf', "store to the --dry-run option field")])
case('C19', "C19-seed8", "mutant", 'seeded (round 4): Logging clean-up in cmd/regbot/root.go process(): the warning Error running script used err.Error(), which for a *lua.ApiEr',
     patch="seeded/C19-8/patch.diff", expect=[('C19.R6', 'process', "unchecked assertion on a Lua value")])
case('C20', "C20-seed7", "mutant", 'seeded (round 4): Robustness feature in pkg/archive.Extract: tar archives are not required to carry a directory entry for every parent of a fil',
     patch="seeded/C20-7/patch.diff", expect=[('C20.R2', 'Extract', "os.MkdirAll path")])
case('C20', "C20-seed8", "mutant", 'seeded (round 4): Behaviour fix in `regctl artifact get --strip-dirs` (cmd/regctl/artifact.go, runArtifactGet): for a directory artifact (title',
     patch="seeded/C20-8/patch.diff", expect=[('C20.R3', 'runArtifactGet', "os.Stat path")])
case('C13', "C13-seed5", "mutant", 'seeded (round 3): layer-add decompresses after the tee that feeds the diff-id digester',
     patch="seeded/C13-5/patch.diff", expect=[('C13.R8', 'WithLayerAddTar', "input of archive.Compress")])

# ---------------------------------------------------------------- fifth round of seeded changes (generated from the matrix)
case('C01', "C01-seed9", "mutant", 'seeded (round 5): pkg/archive Extract (used by `regctl artifact get --output <dir>` for layers that are unpacked, and by API users who pass the',
     patch="seeded/C01-9/patch.diff", expect=[('C01.R12', 'Extract', "end of the archive")])
case('C02', "C02-seed9", "mutant", 'seeded (round 5): types/descriptor/descriptor.go DescriptorListFilter was optimised to filter without allocating: the result slice is now dl[',
     patch="seeded/C02-9/patch.diff", expect=[('C02.R13', 'DescriptorListFilter', "fresh result slice")])
case('C03', "C03-seed9", "mutant", 'seeded (round 5): scheme/ocidir indexGet (scheme/ocidir/ocidir.go), the function that resolves a tag in the index.json of an OCI Layout for Man',
     patch="seeded/C03-9/patch.diff", expect=[('C03.R14', 'indexGet', "loose ref.name match HasSuffix")])
case('C04', "C04-seed9", "mutant", 'seeded (round 5): scheme/reg/manifest.go: the five places that build the key of the registry schemes manifest cache (`rCache := r.SetDigest(..',
     patch="seeded/C04-9/patch.diff", expect=[('C04.R14', 'ManifestDelete', "cacheMan.Delete key")])
case('C05', "C05-seed9", "mutant", 'seeded (round 5): Resource handling change in types/blob/reader.go (package types/blob, the reader type every BlobGet returns and therefore the',
     patch="seeded/C05-9/patch.diff", expect=[('C05.R10', 'Read', "source stays open")])
case('C06', "C06-seed9", "mutant", 'seeded (round 5): types/tag/taglist.go List.Append (the function scheme/reg TagList uses to merge every page fetched through a Link rel=next he',
     patch="seeded/C06-9/patch.diff", expect=[('C06.R11', 'Append', "order-free merge")])
case('C07', "C07-seed9", "mutant", 'seeded (round 5): OCIDir.Close in scheme/ocidir/close.go (GC on close) now deletes the modRefs entry of a path that has not been modified yet (',
     patch="seeded/C07-9/patch.diff", expect=[('C07.R10', 'Close', "delete(modRefs)")])
case('C08', "C08-seed9", "mutant", 'seeded (round 5): Lock-scope refactor of the OCI layout schemes manifest push (do not hold the scheme mutex while a manifest file is written ',
     patch="seeded/C08-9/patch.diff", expect=[('C08.R10', 'referrerPut', "under layout mutex")])
case('C09', "C09-seed9", "mutant", 'seeded (round 5): RegClient.BlobHead (blob.go, the scheme-independent wrapper) gets the same inline-data shortcut that RegClient.BlobGet alread',
     patch="seeded/C09-9/patch.diff", expect=[('C09.R12', 'BlobHead', "answer comes from the scheme")])
case('C10', "C10-seed9", "mutant", 'seeded (round 5): Refactor of types/referrer.ReferrerList.Add (the shared add to the client managed referrers index operation used by scheme/',
     patch="seeded/C10-9/patch.diff", expect=[('C10.R4', 'Add', "no duplicate entries")])
case('C11', "C11-seed9", "mutant", 'seeded (round 5): internal/reghttp/http.go wrapTransport.RoundTrip (the transport wrapper every registry and token request passes through, whic',
     patch="seeded/C11-9/patch.diff", expect=[('C11.R12', 'RoundTrip', "headers in a log entry")])
case('C12', "C12-seed9", "mutant", 'seeded (round 5): scheme/reg/tag.go TagDelete: after the first attempt (DELETE /v2/<repo>/manifests/<tag>, the OCI delete-by-tag API) an early ',
     patch="seeded/C12-9/patch.diff", expect=[('C12.R11', 'TagDelete', "probe sent with IgnoreErr")])
case('C17', "C17-seed9", "mutant", 'seeded (round 5): scheme/reg blobUploadCancel() (the DELETE that drops an abandoned blob upload session): robustness change so the session is',
     patch="seeded/C17-9/patch.diff", expect=[('C17.R10', 'blobUploadCancel', "context of Do")])
case('C18', "C18-seed9", "mutant", 'seeded (round 5): cmd/regsync/root.go runOnce (regsync once): the two ways of running the configured sync entries - one goroutine per entry w',
     patch="seeded/C18-9/patch.diff", expect=[('C18.R9', 'runOnce', "goroutine per entry")])
case('C19', "C19-seed9", "mutant", 'seeded (round 5): Robustness feature in the library core, scheme/ocidir/close.go (OCI layout scheme, file not touched in earlier rounds): OCIDi',
     patch="seeded/C19-9/patch.diff", expect=[('C19.R7', 'Close', "sweep removal")])
case('C20', "C20-seed9", "mutant", 'seeded (round 5): File-permission fix in scheme/ocidir: os.CreateTemp always creates files with mode 0600, so every blob, manifest, index.json ',
     patch="seeded/C20-9/patch.diff", expect=[('C20.R1', 'tmpCreate', "os.OpenFile path")])

# ---------------------------------------------------------------- D20 and C09.R13 (session of 2026-09-29)
case("C09", "C09-D20", "mutant", "historical defect D20 re-introduced: ImageExport closes its tar and gzip writers by deferred calls whose errors are dropped",
     patch="selftest/regress/D20.diff", expect=[("C09.R13", "ImageExport", "archive/tar.NewWriter writer"), ("C09.R13", "ImageExport", "compress/gzip.NewWriter writer")])
case("C09", "C09-m-gzdropped", "mutant", "the deferred literal of the gzip writer drops the Close result",
     patch="selftest/variants/C09-m-gzdropped.diff", expect=[("C09.R13", "ImageExport", "compress/gzip.NewWriter writer")])
case("C09", "C09-m-explicit-gzdropped", "mutant", "explicit closes at the end of the export, the gzip one unchecked",
     patch="selftest/variants/C09-m-explicit-gzdropped.diff", expect=[("C09.R13", "ImageExport", "compress/gzip.NewWriter writer")])
for _v, _d in [("C09-h-explicitclose", "writers closed explicitly and checked before the final return, deferred closes kept as a safety net"),
               ("C09-h-joinclose", "deferred literals join the Close error onto the result"),
               ("C09-h-helperclose", "tar writer finished by a helper that returns the Close error; gzip error wrapped")]:
    case("C09", _v, "benign", _d, patch="selftest/variants/%s.diff" % _v)
    case("C01", _v.replace("C09", "C01x"), "benign", _d + " (C01.R11 looks at deferred stores to error results)", patch="selftest/variants/%s.diff" % _v)


# C18.R10/R11 (known findings D21, D22): the repaired function is silent
case("C18", "C18-h-repaired", "benign", "processRef repaired: a failed backup returns an error, a failed target lookup other than not-found returns an error (no KNOWN-FINDING, no report)", patch="selftest/variants/C18-h-repaired.diff")
case("C18", "C18-h-repaired-backup-only", "benign", "processRef with only the backup failure repaired", patch="selftest/variants/C18-h-repaired-backup-only.diff")

# C11.R13 / D23
case("C11", "C11-D23", "mutant", "historical defect D23 re-introduced: the warnings of regctl's --host parsing log the whole flag value (reg=...,user=...,pass=...)",
     patch="selftest/regress/D23.diff", expect=[("C11.R13", "newRegClient", "slog argument carries Host.Pass")])
case("C11", "C11-m-logmap", "mutant", "the parsed key/value map of the --host flag is logged as a whole",
     edits=[("cmd/regctl/root.go", "\t\t\t\t\tslog.String(\"host\", hKV[\"reg\"]),\n", "\t\t\t\t\tslog.Any(\"host\", hKV),\n")],
     expect=[("C11.R13", "newRegClient", "slog argument carries Host.Pass")])
case("C11", "C11-h-loguser", "benign", "the warning also shows the user name of the --host flag (another entry of the parsed map)",
     edits=[("cmd/regctl/root.go", "\t\t\t\t\tslog.String(\"host\", hKV[\"reg\"]),\n", "\t\t\t\t\tslog.String(\"host\", hKV[\"reg\"]),\n\t\t\t\t\tslog.String(\"user\", hKV[\"user\"]),\n")])

# C17.R11 / D24
case("C17", "C17-D24", "mutant", "historical defect D24 re-introduced: BlobDelete never closes its response, BlobGet returns a status error without closing it",
     patch="selftest/regress/D24.diff", expect=[("C17.R11", "BlobDelete", "response of Do closed"), ("C17.R11", "BlobGet", "response of Do closed")])

# sixth round: refactorings aimed at the places the round-6 rules look at
_CROSS6 = {
    "C04-b6-2": ["C03", "C07"], "C03-b6-2": ["C04", "C09"], "C03-b6-3": ["C04", "C09"], "C06-b6-1": ["C07"], "C15-b6-3": ["C04", "C14"],
}
for _f in sorted(_glob.glob("/verif/selftest/variants/b6/C*-b6-*.diff")):
    _name = os.path.basename(_f)[:-5]
    _own = _name.split("-")[0]
    _desc = ""
    try:
        _desc = (json.load(open(_f[:-5] + ".json")).get("summary") or "")[:140].replace("\n", " ")
    except Exception:
        pass
    for _p in [_own] + _CROSS6.get(_name, []):
        case(_p, _p + "-agent-" + _name, "benign", "agent refactoring (round 6) " + _name + ": " + _desc, patch="selftest/variants/b6/" + _name + ".diff")

# ---------------------------------------------------------------- sixth round of seeded changes (generated from the matrix)
case('C01', "C01-seed10", "mutant", 'seeded (round 6): types/blob/reader.go BReader.ToOCIConfig (the path behind RegClient.BlobGetOCIConfig, ImageConfig, mod, regctl image inspect/confi',
     patch="seeded/C01-10/patch.diff", expect=[('C01.R8', 'ToOCIConfig', 'chain consumed by ReadAll: EOF comparisons follow')])
case('C01', "C01-seed11", "mutant", 'seeded (round 6): cmd/regctl/artifact.go runArtifactGet, the per-layer closure of `regctl artifact get --output <dir>`: the two branches (unpack the',
     patch="seeded/C01-11/patch.diff", expect=[('C01.R13', 'runArtifactGet', 'Copy from a blob reader')])
case('C02', "C02-seed10", "mutant", 'seeded (round 6): scheme/reg/referrer.go, Reg.referrerListByAPI / Reg.referrerListByAPIPage (the registry schemes client for the OCI referrers API)',
     patch="seeded/C02-10/patch.diff", expect=[('C02.R9', 'referrerListByAPIPage', 'raw body')])
case('C02', "C02-seed11", "mutant", 'seeded (round 6): types/docker/schema1/manifest.go, SignedManifest.UnmarshalJSON (the decoder that types/manifest fromCommon and the registry / OCI-',
     patch="seeded/C02-11/patch.diff", expect=[('C02.R14', 'UnmarshalJSON', 'manifest fields decoded from')])
case('C03', "C03-seed10", "mutant", 'seeded (round 6): scheme/reg/manifest.go: the key of the registry schemes manifest cache (used by Reg.ManifestGet, ManifestHead, ManifestPut, Manif',
     patch="seeded/C03-10/patch.diff", expect=[('C03.R12', 'ManifestDelete', 'cacheMan.Delete key')])
case('C03', "C03-seed11", "mutant", 'seeded (round 6): image.go, imageCopyOpt, the goroutine that copies one index entry: for an entry whose descriptor media type is in neither the list',
     patch="seeded/C03-11/patch.diff", expect=[('C03.R16', 'imageCopyOpt', 'manifest copy before blob copy')])
case('C04', "C04-seed10", "mutant", 'seeded (round 6): image.go, imageSeenOrWait (the in-copy dedup table that lets a second goroutine wait for a blob/manifest that another goroutine of',
     patch="seeded/C04-10/patch.diff", expect=[('C04.R15', 'imageSeenOrWait', "the waiter reports the first copier's result")])
case('C04', "C04-seed11", "mutant", 'seeded (round 6): types/ref/ref.go, EqualRepository and EqualRegistry: for the ocidir scheme the two helpers no longer compare Ref.Path byte for byt',
     patch="seeded/C04-11/patch.diff", expect=[('C04.R16', 'EqualRepository', 'compared operands')])
case('C05', "C05-seed11", "mutant", 'seeded (round 6): scheme/reg/blob.go: the two places that add the digest parameter to the upload location (monolithic PUT in blobPutUploadFull, cl',
     patch="seeded/C05-11/patch.diff", expect=[('C05.R2', 'blobPutUploadChunked', 'digest parameter from the digester')])
case('C06', "C06-seed10", "mutant", 'seeded (round 6): scheme/ocidir/ocidir.go updateIndex (called by every ocidir ManifestPut): before calling indexSet it now asks indexGet(index, r) w',
     patch="seeded/C06-10/patch.diff", expect=[('C06.R13', 'updateIndex', 'index entry set')])
case('C07', "C07-seed10", "mutant", 'seeded (round 6): scheme/ocidir/tag.go, (*OCIDir).tagDelete (used by TagDelete and by referrerDelete for an emptied referrers list): after the index',
     patch="seeded/C07-10/patch.diff", expect=[('C07.R11', 'tagDelete', 'Remove')])
case('C07', "C07-seed11", "mutant", 'seeded (round 6): scheme/ocidir/close.go, (*OCIDir).closeProcManifest (the mark phase of the garbage collection that OCIDir.Close runs on a modified',
     patch="seeded/C07-11/patch.diff", expect=[('C07.R12', 'closeProcManifest', 'recursion into index entry')])
case('C08', "C08-seed10", "mutant", 'seeded (round 6): scheme/ocidir/ocidir.go: OCIDir.GCLock and OCIDir.GCUnlock now file the lock count under path.Clean(r.Path) (new helper gcLockPath',
     patch="seeded/C08-10/patch.diff", expect=[('C08.R12', 'GCLock', 'bookkeeping key')])
case('C08', "C08-seed11", "mutant", 'seeded (round 6): image.go: RegClient.ImageCopy now takes the GC lock on the target only when source and target are different repositories (isGCLock',
     patch="seeded/C08-11/patch.diff", expect=[('C08.R1', 'ImageCopy', 'copy only under the GC lock')])
case('C10', "C10-seed10", "mutant", 'seeded (round 6): scheme/reg/referrer.go, Reg.referrerListByAPI (the loop that follows the Link rel=next header of the referrers API): the loop now ',
     patch="seeded/C10-10/patch.diff", expect=[('C10.R5', 'referrerListByAPI', 'loop exit')])
case('C11', "C11-seed11", "mutant", 'seeded (round 6): internal/auth/auth.go bearerHandler.validateResponse() (the function that reads the answer of the token endpoint for both the GET ',
     patch="seeded/C11-11/patch.diff", expect=[('C11.R13', 'validateResponse', 'slog argument carries bearerToken.Token')])
case('C12', "C12-seed10", "mutant", 'seeded (round 6): scheme/reg/blob.go BlobPut: after the monolithic PUT of the blob failed and the source reader was rewound, a new branch handles a ',
     patch="seeded/C12-10/patch.diff", expect=[('C12.R13', 'BlobPut', 'calls itself')])
case('C12', "C12-seed11", "mutant", 'seeded (round 6): internal/reghttp/http.go Resp.backoffSet: support for the HTTP-date form of the Retry-After header is added (RFC 9110 allows secon',
     patch="seeded/C12-11/patch.diff", expect=[('C12.R14', 'backoffSet', 'store to backoffLast')])
case('C14', "C14-seed11", "mutant", 'seeded (round 6): scheme/ocidir/ocidir.go (OCI layout sibling of the registry scheme): OCIDir.readIndex, which every ManifestHead/ManifestGet/Manife',
     patch="seeded/C14-11/patch.diff", expect=[('C14.R9', 'readIndex', 'index decoded by this call')])
case('C15', "C15-seed10", "mutant", 'seeded (round 6): types/ref/ref.go: digest validation is delegated to go-digest. The regexp fragment digestS loses its lower bound on the hex part (',
     patch="seeded/C15-10/patch.diff", expect=[('C15.R2', 'ocidirRE', 'digest hex part')])
case('C16', "C16-seed10", "mutant", 'seeded (round 6): types/platform/platform.go Parse: the single plat.normalize() call is moved from before the expand short references from the loca',
     patch="seeded/C16-10/patch.diff", expect=[('C16.R9', 'Parse', 'field compared with another platform')])
case('C16', "C16-seed11", "mutant", 'seeded (round 6): types/manifest/manifest.go GetPlatformDesc (the package function behind ManifestGet/ManifestHead WithManifestPlatform, ImageCheckB',
     patch="seeded/C16-11/patch.diff", expect=[('C16.R8', 'GetPlatformDesc', 'list handed to the ranked search')])
case('C17', "C17-seed11", "mutant", 'seeded (round 6): scheme/ocidir/blob.go: BlobPut no longer does o.throttleGet(r, false) followed by t.Acquire(...) itself but calls a new helper',
     patch="seeded/C17-11/patch.diff", expect=[('C17.R12', 'throttleAcquire', 'waits for a slot')])
case('C18', "C18-seed10", "mutant", 'seeded (round 6): cmd/regsync/root.go processRef (plus the matching sentence in docs/regsync.md): the block that resolves the configured `platform` ',
     patch="seeded/C18-10/patch.diff", expect=[('C18.R13', 'processRef', 'no early success after the backup')])
case('C18', "C18-seed11", "mutant", 'seeded (round 6): types/tag/taglist.go (*List).Append - the helper scheme/reg TagList uses to merge the pages of a paginated tags/list response (Lin',
     patch="seeded/C18-11/patch.diff", expect=[('C18.R12', 'Append', 'order-free merge')])
case('C19', "C19-seed10", "mutant", 'seeded (round 6): Two small edits that each look fine alone. (a) cmd/regbot/sandbox/sandbox.go RunScript (+ new sandbox.ErrCanceled in sandbox/error',
     patch="seeded/C19-10/patch.diff", expect=[('C19.R3', 'runOnce', 'script loop')])
case('C19', "C19-seed11", "mutant", 'seeded (round 6): cmd/regbot/sandbox/image.go imageCopy (documented in docs/regbot.md): a usability fix for scripts that stage an image in a local O',
     patch="seeded/C19-11/patch.diff", expect=[('C19.R1', 'imageCopy', 'ungated call of ImageCopy')])
case('C20', "C20-seed10", "mutant", 'seeded (round 6): scheme/ocidir/blob.go OCIDir.BlobMount (until now a stub returning ErrUnsupported) is implemented as an optimisation: when source ',
     patch="seeded/C20-10/patch.diff", expect=[('C20.R1', 'BlobMount', 'os.Link path')])
case('C20', "C20-seed11", "mutant", 'seeded (round 6): scheme/ocidir/tag.go OCIDir.tagDelete (used by TagDelete and, for the fallback tag of an emptied referrer list, by referrerDelete)',
     patch="seeded/C20-11/patch.diff", expect=[('C20.R1', 'tagDelete', 'os.Remove path')])

# C10.R2 (invalidate again) / D25
case("C10", "C10-D25", "mutant", "historical defect D25 re-introduced: referrerDelete invalidates the cached list only before it takes the fallback tag lock",
     patch="selftest/regress/D25.diff", expect=[("C10.R2", "referrerDelete", "delete invalidates again under the lock")])

case('C17', "C17-seed10", "mutant", 'seeded (round 6): types/blob BReader.ToTarReader detaches the reader (reader/origRdr set to nil): Close no longer reaches the response, the slot is lost',
     patch="seeded/C17-10/patch.diff", expect=[('C17.R13', 'ToTarReader', "source field origRdr cleared")])

# C09.R14 / D26
case("C09", "C09-D26", "mutant", "historical defect D26 re-introduced: a Docker import by a name that is not in manifest.json warns, returns, and the caller pushes the empty manifest",
     patch="selftest/regress/D26.diff", expect=[("C09.R14", "imageImportDockerAddLayerHandlers", "selection that finds nothing")])

# C08.R13 / D27
case("C08", "C08-D27", "mutant", "historical defect D27 re-introduced: the sweep of Close does not look at the top directory, where the temp files of index.json and oci-layout are made",
     patch="selftest/regress/D27.diff", expect=[("C08.R13", "writeIndex", "temp file in the layout's top directory")])

# C19.R8 (known finding D28)
case("C19", "C19-h-nolibs", "benign", "the interpreter is created without its default libraries (repaired form: no KNOWN-FINDING, no report)",
     edits=[("cmd/regbot/sandbox/sandbox.go", "\tls := lua.NewState()\n", "\tls := lua.NewState(lua.Options{SkipOpenLibs: true})\n")])
case("C19", "C19-m-openos", "mutant", "the interpreter is created without default libraries, then the os library is opened again",
     edits=[("cmd/regbot/sandbox/sandbox.go", "\tls := lua.NewState()\n", "\tls := lua.NewState(lua.Options{SkipOpenLibs: true})\n\tlua.OpenOs(ls)\n")],
     expect=[("C19.R8", "New", "file-capable Lua libraries")])

# found by the cross run of all stored variants against the round-6 rules
case("C17", "C17-agent-C01-b2-4", "benign", "agent refactoring C01-b2-4 (external-URL fall-back of BlobGet as a counted loop testing the same error twice)", patch="selftest/variants/b2/C01-b2-4.diff")
case("C17", "C17-agent-C11-b2-1", "benign", "agent refactoring C11-b2-1 (BlobGet / BlobHead fall-back restructured)", patch="selftest/variants/b2/C11-b2-1.diff")

def main():
    bad = 0
    for pid, cases in CASES.items():
        for c in cases:
            for e in c.get("edits", []):
                src = open(os.path.join(REPO, e["file"])).read()
                n = src.count(e["old"])
                if n != 1:
                    print(f"!! {c['id']}: anchor occurs {n} times in {e['file']}")
                    bad += 1
            if c.get("patch") and not os.path.exists(os.path.join("/verif", c["patch"])):
                print(f"!! {c['id']}: patch {c['patch']} missing")
                bad += 1
        if pid in ("C12", "C19"):
            # hand-written files: merge by id
            old = json.load(open(f"/verif/selftest/{pid}.json"))
            ids = {c["id"] for c in cases}
            cases = [c for c in old if c["id"] not in ids] + cases
        json.dump(cases, open(f"/verif/selftest/{pid}.json", "w"), indent=1)
        print(pid, len(cases), "cases")
    sys.exit(1 if bad else 0)

main()

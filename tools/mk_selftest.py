#!/usr/bin/env python3
"""Self-test case definitions (mutants and benign variants), written as Python for easy quoting.
Validates that every anchor snippet occurs exactly once in /repo and writes selftest/<ID>.json.
Cases defined in the hand-written JSON files (C12, C19) are left alone unless listed here."""
import json, os, sys

REPO = "/repo"
CASES = {}

def case(pid, cid, kind, desc, edits=None, patch=None, expect=None):
    c = {"id": cid, "kind": kind, "desc": desc}
    if edits:
        c["edits"] = [{"file": f, "old": o, "new": n} for (f, o, n) in edits]
    if patch:
        c["patch"] = patch
    if expect:
        c["expect"] = [dict(zip(("rule", "func", "construct"), e)) for e in expect]
    CASES.setdefault(pid, []).append(c)

# ---------------------------------------------------------------- C04
case("C04", "C04-seed1", "mutant", "seeded: seenCB deferred before BlobCopy (argument evaluated early: waiters told success)",
     patch="seeded/C04-1/patch.diff", expect=[("C04.R6", "imageCopyBlob", "seen-entry")])
case("C04", "C04-seed2", "mutant", "seeded: BlobCopy returns nil when the upload was cancelled",
     patch="seeded/C04-2/patch.diff", expect=[("C04.R6", "BlobCopy", "BlobPut")])
case("C04", "C04-m-count", "mutant", "config goroutine started without waitCount++",
     edits=[("image.go", "\t\t\twaitCount++\n\t\t\tgo func() {\n\t\t\t\trc.slog.Info(\"Copy config\",", "\t\t\tgo func() {\n\t\t\t\trc.slog.Info(\"Copy config\",")],
     expect=[("C04.R1", "imageCopyOpt", "counted")])
case("C04", "C04-m-nosend", "mutant", "layer goroutine returns without sending when cancelled",
     edits=[("image.go", "\t\t\t\terr := rc.imageCopyBlob(ctx, refSrc, refTgt, layerSrc, opt, bOpt...)\n", "\t\t\t\terr := rc.imageCopyBlob(ctx, refSrc, refTgt, layerSrc, opt, bOpt...)\n\t\t\t\tif errors.Is(err, context.Canceled) {\n\t\t\t\t\treturn\n\t\t\t\t}\n")],
     expect=[("C04.R1", "imageCopyOpt", "completes once")])
case("C04", "C04-m-double", "mutant", "barrier decrements twice per receive on the error path",
     edits=[("image.go", "\t\t\t} else {\n\t\t\t\t<-waitCh\n\t\t\t}\n\t\t}\n\t\twaitCount--\n\t}\n\tif err != nil {\n\t\treturn err\n\t}\n", "\t\t\t} else {\n\t\t\t\t<-waitCh\n\t\t\t\twaitCount--\n\t\t\t}\n\t\t}\n\t\twaitCount--\n\t}\n\tif err != nil {\n\t\treturn err\n\t}\n")],
     expect=[("C04.R2", "imageCopyOpt", "barrier")])
case("C04", "C04-m-errtest", "mutant", "error test after the barrier removed: a failed child no longer stops the manifest write",
     edits=[("image.go", "\t\twaitCount--\n\t}\n\tif err != nil {\n\t\treturn err\n\t}\n\n\t// push manifest\n", "\t\twaitCount--\n\t}\n\n\t// push manifest\n")],
     expect=[("C04.R3", "imageCopyOpt", "error test")])
case("C04", "C04-m-childflag", "mutant", "seeded C03-2 shape: digest-tag copies inherit the child flag",
     edits=[("image.go", "\t\t\t\t\terr := rc.imageCopyOpt(ctx, refTagSrc, refTagTgt, descriptor.Descriptor{}, false, parentsNew, opt)", "\t\t\t\t\terr := rc.imageCopyOpt(ctx, refTagSrc, refTagTgt, descriptor.Descriptor{}, child, parentsNew, opt)")],
     expect=[("C04.R4", "imageCopyOpt", "by tag")])
case("C04", "C04-m-bytag", "mutant", "index entries copied to the target tag instead of by digest",
     edits=[("image.go", "\t\t\t\tentryTgt := refTgt.SetDigest(dEntry.Digest.String())\n", "\t\t\t\tentryTgt := refTgt\n")],
     expect=[("C04.R4", "imageCopyOpt", "recursive copy")])
case("C04", "C04-b-namedlit", "benign", "config goroutine literal bound to a local variable first",
     edits=[("image.go", "\t\t\twaitCount++\n\t\t\tgo func() {\n\t\t\t\trc.slog.Info(\"Copy config\",", "\t\t\tcopyConfig := func() {\n\t\t\t\trc.slog.Info(\"Copy config\","),
            ("image.go", "\t\t\t\t\t\tslog.String(\"digest\", cd.Digest.String()),\n\t\t\t\t\t\tslog.String(\"err\", err.Error()))\n\t\t\t\t}\n\t\t\t\twaitCh <- err\n\t\t\t}()\n", "\t\t\t\t\t\tslog.String(\"digest\", cd.Digest.String()),\n\t\t\t\t\t\tslog.String(\"err\", err.Error()))\n\t\t\t\t}\n\t\t\t\twaitCh <- err\n\t\t\t}\n\t\t\twaitCount++\n\t\t\tgo copyConfig()\n")])

# ---------------------------------------------------------------- C06
case("C06", "C06-D10", "mutant", "historical defect D10 re-introduced: tagDelete removes while ranging forwards",
     patch="selftest/regress/D10.diff", expect=[("C06.R2", "tagDelete", "delete from")])
case("C06", "C06-m-unlock", "mutant", "ManifestDelete releases the lock between the index read and the index write",
     edits=[("scheme/ocidir/manifest.go", "\t// push manifest back out\n\tif changed {\n\t\terr = o.writeIndex(r, index, true)", "\t// push manifest back out\n\to.mu.Unlock()\n\to.mu.Lock()\n\tif changed {\n\t\terr = o.writeIndex(r, index, true)")],
     expect=[("C06.R1", "ManifestDelete", "")])
case("C06", "C06-m-nolock", "mutant", "TagDelete without taking the layout mutex",
     edits=[("scheme/ocidir/tag.go", "func (o *OCIDir) TagDelete(ctx context.Context, r ref.Ref) error {\n\to.mu.Lock()\n\tdefer o.mu.Unlock()\n", "func (o *OCIDir) TagDelete(ctx context.Context, r ref.Ref) error {\n")],
     expect=[("C06.R1", "TagDelete", "")])
case("C06", "C06-m-relock", "mutant", "tagDelete reads the index through the locking variant while the lock is held (self-deadlock)",
     edits=[("scheme/ocidir/tag.go", "\tindex, err := o.readIndex(r, true)\n\tif err != nil {\n\t\treturn fmt.Errorf(\"failed to read index: %w\", err)\n\t}\n\tchanged := false", "\tindex, err := o.readIndex(r, false)\n\tif err != nil {\n\t\treturn fmt.Errorf(\"failed to read index: %w\", err)\n\t}\n\tchanged := false")],
     expect=[("C06.R1", "tagDelete", "")])
case("C06", "C06-m-live", "mutant", "tag-delete fallback deletes the digest of the live manifest instead of the placeholder",
     edits=[("scheme/reg/tag.go", "\tr = r.AddDigest(tempManifest.GetDescriptor().Digest.String())", "\tr = r.AddDigest(curManifest.GetDescriptor().Digest.String())")],
     expect=[("C06.R3", "TagDelete", "placeholder digest")])
case("C06", "C06-m-droppage", "mutant", "tag listing stops after the first extra page",
     edits=[("scheme/reg/tag.go", "\t\t\terr = tl.Append(tlAdd)\n\t\t\tif err != nil {\n\t\t\t\treturn tl, fmt.Errorf(\"tag list failed to append entries: %w\", err)\n\t\t\t}\n", "\t\t\terr = tl.Append(tlAdd)\n\t\t\tif err != nil {\n\t\t\t\treturn tl, fmt.Errorf(\"tag list failed to append entries: %w\", err)\n\t\t\t}\n\t\t\tif len(tlAdd.Tags) < 2 {\n\t\t\t\tbreak\n\t\t\t}\n")],
     expect=[("C06.R4", "TagList", "loop exit")])
case("C06", "C06-b-explicit-unlock", "benign", "TagDelete with explicit unlock on its single path instead of defer",
     edits=[("scheme/ocidir/tag.go", "func (o *OCIDir) TagDelete(ctx context.Context, r ref.Ref) error {\n\to.mu.Lock()\n\tdefer o.mu.Unlock()\n\treturn o.tagDelete(ctx, r)\n", "func (o *OCIDir) TagDelete(ctx context.Context, r ref.Ref) error {\n\to.mu.Lock()\n\terr := o.tagDelete(ctx, r)\n\to.mu.Unlock()\n\treturn err\n")])

# ---------------------------------------------------------------- C07
case("C07", "C07-D4", "mutant", "historical defect D4 re-introduced: oci-layout rewritten in place with os.Create",
     patch="selftest/regress/D4.diff", expect=[("C07.R1", "writeIndex", "os.Create"), ("C07.R1", "initIndex", "os.Create")])
case("C07", "C07-seed1", "mutant", "seeded: manifest written in place with os.WriteFile",
     patch="seeded/C07-1/patch.diff", expect=[("C07.R1", "manifestPut", "os.WriteFile")])
case("C07", "C07-seed2", "mutant", "seeded: manifest file removed before the index is rewritten",
     patch="seeded/C07-2/patch.diff", expect=[("C07.R3", "ManifestDelete", "remove after index")])
case("C07", "C07-m-closeerr", "mutant", "blob published although Close of the temp file failed",
     edits=[("scheme/ocidir/blob.go", "\tif errC != nil {\n\t\treturn d, errC\n\t}\n", "\t_ = errC\n")],
     expect=[("C07.R2", "BlobPut", "os.Rename")])
case("C07", "C07-m-idxfirst", "mutant", "index updated before the manifest file is renamed into place",
     edits=[("scheme/ocidir/manifest.go", "\tfile := path.Join(dir, desc.Digest.Encoded())\n\terr = os.Rename(path.Join(dir, tmpName), file)\n\tif err != nil {\n\t\treturn fmt.Errorf(\"failed to write manifest (rename tmpfile): %w\", err)\n\t}\n\n\t// verify/update index\n\terr = o.updateIndex(r, desc, config.Child, true)\n\tif err != nil {\n\t\treturn err\n\t}\n",
            "\t// verify/update index\n\terr = o.updateIndex(r, desc, config.Child, true)\n\tif err != nil {\n\t\treturn err\n\t}\n\tfile := path.Join(dir, desc.Digest.Encoded())\n\terr = os.Rename(path.Join(dir, tmpName), file)\n\tif err != nil {\n\t\treturn fmt.Errorf(\"failed to write manifest (rename tmpfile): %w\", err)\n\t}\n\n")],
     expect=[("C07.R3", "manifestPut", "index update after rename")])
case("C07", "C07-m-renameother", "mutant", "index renamed from a fixed name instead of the temp file",
     edits=[("scheme/ocidir/ocidir.go", "\terr = os.Rename(path.Join(r.Path, tmpName), indexFile)", "\t_ = tmpName\n\terr = os.Rename(path.Join(r.Path, \"index.json.new\"), indexFile)")],
     expect=[("C07.R1", "writeIndex", "os.Rename")])
case("C07", "C07-b-tmpname", "benign", "temp name taken from (*os.File).Name() instead of Stat().Name()",
     edits=[("scheme/ocidir/ocidir.go", "\tindexFile := path.Join(r.Path, \"index.json\")\n\terr = os.Rename(path.Join(r.Path, tmpName), indexFile)", "\tindexFile := path.Join(r.Path, \"index.json\")\n\t_ = tmpName\n\terr = os.Rename(tmpFile.Name(), indexFile)")])

def main():
    bad = 0
    for pid, cases in CASES.items():
        for c in cases:
            for e in c.get("edits", []):
                src = open(os.path.join(REPO, e["file"])).read()
                n = src.count(e["old"])
                if n != 1:
                    print(f"!! {c['id']}: anchor occurs {n} times in {e['file']}")
                    bad += 1
            if c.get("patch") and not os.path.exists(os.path.join("/verif", c["patch"])):
                print(f"!! {c['id']}: patch {c['patch']} missing")
                bad += 1
        json.dump(cases, open(f"/verif/selftest/{pid}.json", "w"), indent=1)
        print(pid, len(cases), "cases")
    sys.exit(1 if bad else 0)

main()

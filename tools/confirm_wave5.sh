#!/bin/sh
# usage: confirm_wave5.sh <ID>...   confirms /tmp/seed/<ID>/out5/1 into /verif/seeded/<ID>-9
for id in "$@"; do
  if [ -f /tmp/seed/$id/out5/1/patch.diff ] && [ ! -d /verif/seeded/$id-9 ]; then
    python3 /verif/tools/confirm_seed.py $id 1 out5 9 > /tmp/confirm_${id}_9.log 2>&1
  fi
done

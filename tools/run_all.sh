#!/bin/bash
# run every property's check (tier $1, default thorough) and print one summary line each
cd /verif
export GOFLAGS=-mod=mod GOPROXY=off GOSUMDB=off GOTOOLCHAIN=local GOWORK=off
tier=${1:-thorough}
for p in $(${RCV:-./bin/rcverif} list); do
  out=$(${RCV:-./bin/rcverif} check -property $p -tier $tier 2>&1); rc=$?
  echo "$p rc=$rc $(echo "$out" | grep '^property=' | tail -1) | $(echo "$out" | grep '^selftest:' | tail -1)"
  echo "$out" | grep -E "selftest FAILED|VIOLATION|VIOLATED|UNDECIDED" | head -10
done

#!/bin/sh
# usage: bcheck.sh <PROP> <patch>...   prints the violations of PROP's rules on each patch (overlay)
p=$1; shift
for f in "$@"; do
  echo "$(basename $(dirname $f))/$(basename $f) [$p]: $(/verif/bin/rcverif mutant -property $p -patch $f | python3 -c "
import json,sys
d=json.load(sys.stdin)
x={k:v for k,v in d.items() if k!='violations'}
print(x if x else '', [(v['rule'],v['func'].split('.')[-1],v['construct'],v.get('detail','')[:90]) for v in d['violations']])")"
done
